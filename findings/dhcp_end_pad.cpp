// Native replay for dhcp.option_accounting / dhcp.option_wire_image: a DHCP message whose options include PAD (0) and END (255)
// is parsed, serialized and re-parsed: same length, same option list (property C03).
#include <tins/tins.h>
#include "replay_util.h"
using namespace Tins;
int main(int, char**) {
    std::vector<uint8_t> b(240, 0);
    b[0] = 1; b[1] = 1; b[2] = 6;
    b[236] = 0x63; b[237] = 0x82; b[238] = 0x53; b[239] = 0x63;
    const uint8_t opts[] = {53, 1, 1, 0, 0, 255};        // message type = DISCOVER, PAD, PAD, END
    b.insert(b.end(), opts, opts + sizeof opts);
    ExactBuf in(b);
    DHCP p(in.p, (uint32_t)b.size());
    std::vector<uint8_t> y = p.serialize();
    DHCP q(y.data(), (uint32_t)y.size());
    printf("input %zu bytes, %zu options; serialization %zu bytes, re-parsed %zu options\n", b.size(), p.options().size(), y.size(), q.options().size());
    if (y.size() != b.size() || q.options().size() != p.options().size()) { printf("DEFECT: END/PAD are single octets on the wire (RFC 2132) but were written with a length octet\n"); return 1; }
    if (y != b) { printf("DEFECT: bytes differ\n"); return 1; }
    printf("ok\n"); return 0;
}
