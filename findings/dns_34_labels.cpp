// Demonstration (real libtins): a legal 34-label PTR name (every ip6.arpa name has 34 labels) inserted into a query cannot be
// read back: compose_name counts labels, not compression pointers, and throws dns_decompression_pointer_loops.
#include <tins/tins.h>
#include <cstdio>
using namespace Tins;
int main() {
    std::string name = "b.a.9.8.7.6.5.0.0.0.0.0.0.0.0.0.0.0.0.0.0.0.0.0.8.b.d.0.1.0.0.2.ip6.arpa";
    DNS dns;
    dns.add_query(DNS::query(name, DNS::PTR, DNS::IN));
    try {
        DNS::queries_type q = dns.queries();
        printf("read back: %s\n", q.at(0).dname().c_str());
        return q.at(0).dname() == name ? 0 : 1;
    } catch (const std::exception& e) {
        printf("DEFECT: queries() threw %s for a legal %zu-octet name with 34 labels\n", e.what(), name.size());
        return 1;
    }
}
