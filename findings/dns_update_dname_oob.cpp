// DNS::update_dname walked names in record data without bounds (fixed). Build with -fsanitize=address against the sources.
#include <tins/tins.h>
#include <cstdio>
using namespace Tins;
int main() {
    std::vector<uint8_t> m = {0x12,0x34, 0x81,0x80, 0,1, 0,0, 0,1, 0,0,
        1,'a',0, 0,1, 0,1,
        1,'b',0, 0,2, 0,1, 0,0,0,60, 0,1, 0x3f};   // authority b. NS: data = a label length (63) with nothing behind it
    uint8_t* exact = new uint8_t[m.size()]; std::copy(m.begin(), m.end(), exact);
    DNS dns(exact, (uint32_t)m.size());
    try { dns.add_answer(DNS::resource("a", "192.0.2.1", DNS::A, DNS::IN, 60)); printf("add_answer returned\n"); }
    catch (const malformed_packet&) { printf("malformed_packet reported\n"); }
    delete[] exact; return 0;
}
