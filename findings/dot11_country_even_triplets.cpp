// Fixed defect (property C04): Dot11ManagementFrame::country(params) pads the element to an even length (IEEE 802.11), but
// country_params::from_option rejected the pad octet: country() threw malformed_option for every element with an even number
// of (first channel, number of channels, max power) triplets, directly after the setter and through the wire.
// Build: g++ -std=c++11 -I/repo/include findings/dot11_country_even_triplets.cpp -L/repo/_build/lib -ltins -o /tmp/f && LD_LIBRARY_PATH=/repo/_build/lib /tmp/f
#include <tins/tins.h>
#include <cstdio>
using namespace Tins;
int main() {
    int bad = 0;
    for (size_t k = 1; k <= 4; ++k) {
        Dot11Beacon::country_params p; p.country = "US ";
        for (size_t i = 0; i < k; ++i) { p.first_channel.push_back(1 + 4 * i); p.number_channels.push_back(4); p.max_transmit_power.push_back(20); }
        Dot11Beacon b; b.country(p);
        try { Dot11Beacon::country_params q = b.country(); printf("%zu triplets: read back %zu\n", k, q.first_channel.size()); if (q.first_channel != p.first_channel) ++bad; }
        catch (const std::exception& e) { printf("%zu triplets: country() throws %s\n", k, e.what()); ++bad; }
    }
    return bad ? 1 : 0;
}
