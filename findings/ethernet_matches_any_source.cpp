// Known finding (property C14): EthernetII::matches_response and Dot3::matches_response test `request.src == reply.dst` twice
// (outer and inner condition are the same expression); the source address of the reply is never compared with the destination
// of a unicast request, so a frame from any station addressed to the requester matches as far as the link layer is concerned.
// Build: g++ -std=c++11 -I/repo/include findings/ethernet_matches_any_source.cpp -L/repo/_build/lib -ltins -o /tmp/f && LD_LIBRARY_PATH=/repo/_build/lib /tmp/f
#include <tins/tins.h>
#include <cstdio>
using namespace Tins;
int main() {
    HWAddress<6> me("00:01:02:03:04:05"), peer("0a:0b:0c:0d:0e:0f"), other("0a:0b:0c:0d:0e:00");
    EthernetII req(peer, me);                      // unicast request me -> peer, no inner layer
    EthernetII from_peer(me, peer), from_other(me, other);
    std::vector<uint8_t> a = from_peer.serialize(), b = from_other.serialize();
    bool m1 = req.matches_response(a.data(), (uint32_t)a.size()), m2 = req.matches_response(b.data(), (uint32_t)b.size());
    printf("reply from the station the request was sent to: %d; frame from another station: %d\n", m1, m2);
    Dot3 req3(peer, me), other3(me, other); std::vector<uint8_t> c = other3.serialize();
    bool m3 = req3.matches_response(c.data(), (uint32_t)c.size());
    printf("Dot3, frame from another station: %d\n", m3);
    return (m1 && !m2 && !m3) ? 0 : 1;
}
