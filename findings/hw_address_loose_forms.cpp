// Known finding (property C16): HWAddress<n>(std::string) accepts strings that do not have the documented form
// "00:01:da:fa:..." (two hex digits per octet, ':' between octets, at most n octets).
// Build: g++ -std=c++11 -I/repo/include findings/hw_address_loose_forms.cpp -L/repo/_build/lib -ltins -o /tmp/hwf && LD_LIBRARY_PATH=/repo/_build/lib /tmp/hwf
#include <tins/tins.h>
#include <cstdio>
using namespace Tins;
template <size_t N> static int accepted(const char* s) {
    try { HWAddress<N> a((std::string(s))); printf("HWAddress<%zu>(\"%s\") accepted as %s\n", N, s, a.to_string().c_str()); return 1; }
    catch (invalid_address&) { printf("HWAddress<%zu>(\"%s\") rejected\n", N, s); return 0; }
}
int main() {
    int n = 0;
    n += accepted<6>("1:2:3:4:5:06");                 // one-digit groups before ':'
    n += accepted<6>("00::11");                       // empty group
    n += accepted<6>("::::");                         // only separators
    n += accepted<6>("00:11:22:33:44:55:");           // trailing ':'
    n += accepted<6>("00:11:22:33:44:55:66:77");      // more octets than the type holds
    n += accepted<6>("00:11:22:33:44:55:zz zz");      // garbage behind the last octet's ':'
    accepted<6>("00:11:22:33:44:5");                  // rejected (a group cut short by the end of the string)
    accepted<6>("00:11:22:33:44:555");                // rejected (three digits)
    return n ? 1 : 0;
}
