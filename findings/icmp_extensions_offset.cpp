#include <tins/tins.h>
#include <cstdio>
using namespace Tins;
int main() {
    ICMP l(ICMP::TIMESTAMP_REQUEST);
    const uint8_t ep[] = {0xde, 0xad, 0xbe, 0xef};
    ICMPExtension ext(1, 1); ext.payload(ICMPExtension::payload_type(ep, ep + 4));
    l.extensions().add_extension(ext);
    std::vector<uint8_t> payload(140); for (size_t i = 0; i < payload.size(); ++i) payload[i] = 0xa0 + i % 0x50;
    l.inner_pdu(RawPDU(payload.begin(), payload.end()));
    uint32_t hs = l.header_size();
    std::vector<uint8_t> y = l.serialize();
    int bad = 0;
    for (size_t i = 0; i < payload.size(); ++i) if (y[hs + i] != payload[i]) { printf("payload octet %zu overwritten: 0x%02x -> 0x%02x\n", i, payload[i], y[hs+i]); bad = 1; break; }
    printf("header_size %u, total %zu, %s\n", hs, y.size(), bad ? "DEFECT" : "ok");
    return bad;
}
