// Fixed defect (property C04): ICMPv6::rsa_signature padded the option DATA to a multiple of 8 octets instead of the whole
// option (type + length + data, RFC 3971 5.2 / RFC 4861 4.6): the option was always 2 octets longer than its length octet can
// say, so every option behind it (and the message) was mis-parsed after serialization.
// Build: g++ -std=c++11 -I/repo/include findings/icmpv6_rsa_signature_padding.cpp -L/repo/_build/lib -ltins -o /tmp/f && LD_LIBRARY_PATH=/repo/_build/lib /tmp/f
#include <tins/tins.h>
#include <cstdio>
using namespace Tins;
int main() {
    int bad = 0;
    for (size_t n = 1; n <= 24; ++n) {
        ICMPv6 p(ICMPv6::NEIGHBOUR_ADVERT);
        ICMPv6::rsa_sign_type sig; for (int i = 0; i < 16; ++i) sig.key_hash[i] = i; sig.signature.assign(n, 0xaa);
        p.rsa_signature(sig); p.mtu(ICMPv6::mtu_type(0, 1500));
        size_t opt = 2 + p.options().front().data_size();
        std::vector<uint8_t> y = p.serialize();
        try { ICMPv6 q(y.data(), (uint32_t)y.size()); if (q.options().size() != 2 || q.mtu().second != 1500) { printf("signature %zu: option of %zu octets, %zu options read back\n", n, opt, q.options().size()); ++bad; } }
        catch (const std::exception& e) { printf("signature %zu: option of %zu octets, re-parse throws %s\n", n, opt, e.what()); ++bad; }
    }
    printf("%d of 24 signature lengths fail\n", bad);
    return bad ? 1 : 0;
}
