// Demonstration (real libtins): IP::matches_response accepts an ICMP destination-unreachable from an unrelated host
// that quotes a header DIFFERENT from the request's, and rejects the one that quotes the request's own header.
// Build: g++ -std=c++11 -I/repo/include ip_matches_unreachable.cpp -L/repo/_build/lib -ltins -o t && LD_LIBRARY_PATH=/repo/_build/lib ./t
#include <tins/tins.h>
#include <cstdio>
using namespace Tins;
int main() {
    IP req = IP("5.6.7.8", "1.2.3.4") / UDP(53, 4000) / RawPDU("payload");
    std::vector<uint8_t> wire = req.serialize();               // fills tot_len / checksum in req's header too
    // stranger: 9.9.9.9 -> 8.8.8.8, ICMP type 3, quoting `quoted`
    std::vector<uint8_t> unrelated = (IP("77.77.77.77", "66.66.66.66") / UDP(1, 2) / RawPDU("zzzzzzz")).serialize();
    for (int variant = 0; variant < 2; ++variant) {
        const std::vector<uint8_t>& quoted = variant == 0 ? unrelated : wire;
        ICMP icmp(ICMP::DEST_UNREACHABLE);
        IP reply = IP("8.8.8.8", "9.9.9.9") / icmp / RawPDU(quoted.data(), 28);
        std::vector<uint8_t> rb = reply.serialize();
        bool m = req.matches_response(rb.data(), (uint32_t)rb.size());
        printf("unreachable from 9.9.9.9 to 8.8.8.8 quoting %s header: matches=%d\n", variant == 0 ? "an UNRELATED" : "the REQUEST's", (int)m);
        if (variant == 0 && m) { printf("DEFECT: stranger accepted\n"); }
        if (variant == 1 && !m) { printf("DEFECT: genuine error report rejected\n"); }
    }
    return 0;
}
