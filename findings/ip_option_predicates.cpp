// IP options: parser, header_size() and write_option disagreed on which type octets carry a length (fixed in 165a9c8).
// Before the fix: options parsed 3, serialization 46 .. | 81 02 01 01 | 00 62 63 64 (payload 'a' overwritten), re-parse throws.
#include <tins/tins.h>
#include <cstdio>
using namespace Tins;
int main() {
    uint8_t b[] = {0x46,0,0,28, 0,1,0,0, 64,0xfd,0,0, 10,0,0,1, 10,0,0,2, 0x81,0x01,0x01,0x00, 'a','b','c','d'};
    try {
        IP p(b, sizeof b);
        std::vector<uint8_t> y = p.serialize();
        for (size_t i = 20; i < y.size(); ++i) printf("%02x ", y[i]); printf("\n");
        if (y.size() != sizeof b || y[24] != 'a') { printf("DEFECT: payload overwritten / size changed\n"); return 1; }
    } catch (const malformed_packet&) { printf("rejected (type octet 0x81 needs a valid length octet)\n"); }
    return 0;
}
