// Fixed defect (properties C05 / C03): IPv6 / IPSecAH / TCP built through the API is serialized with next header 51, but IPv6's
// constructor consumed 51 as a generic extension header sized (len + 1) * 8 octets (AH counts 32-bit words minus 2): the
// serialization did not parse back, and AH in received traffic was cut at the wrong place.
// Build: g++ -std=c++11 -I/repo/include findings/ipv6_ah_layer.cpp -L/repo/_build/lib -ltins -o /tmp/f && LD_LIBRARY_PATH=/repo/_build/lib /tmp/f
#include <tins/tins.h>
#include <cstdio>
using namespace Tins;
int main() {
    int bad = 0;
    for (size_t icv = 0; icv <= 16; icv += 4) {
        IPSecAH ah; ah.spi(0x11223344); ah.seq_number(7); ah.icv(std::vector<uint8_t>(icv, 0xaa));
        IPv6 p = IPv6("2001:db8::1", "2001:db8::2") / ah / TCP(80, 1234);
        std::vector<uint8_t> y = p.serialize();
        try { IPv6 q(y.data(), (uint32_t)y.size()); const IPSecAH* a = q.find_pdu<IPSecAH>(); const TCP* t = q.find_pdu<TCP>();
              if (!a || !t || a->spi() != 0x11223344 || t->dport() != 80) { printf("icv %zu: AH/TCP not read back\n", icv); ++bad; } }
        catch (const std::exception& e) { printf("icv %zu: re-parse throws %s\n", icv, e.what()); ++bad; }
    }
    printf("%d failures\n", bad);
    return bad ? 1 : 0;
}
