// Demonstration (real libtins): 255.255.255.255/32 holds one address and no host, yet is_iterable() says true
// (increment() only reports reaching all-ones, not wrapping past it), and iterating it walks ~2^32 addresses.
#include <tins/tins.h>
#include <cstdio>
using namespace Tins;
int main() {
    IPv4Range r = IPv4Address("255.255.255.255") / 32;
    IPv4Range s = IPv4Address("10.0.0.1") / 32;
    printf("255.255.255.255/32 is_iterable=%d   10.0.0.1/32 is_iterable=%d\n", (int)r.is_iterable(), (int)s.is_iterable());
    if (r.is_iterable()) {
        unsigned long n = 0;
        for (IPv4Range::iterator it = r.begin(); it != r.end() && n < 100000; ++it) ++n;
        printf("iterating it visited %lu addresses (stopped counting at 100000); first visited: %s\n", n, r.begin()->to_string().c_str());
        return 1;
    }
    return 0;
}
