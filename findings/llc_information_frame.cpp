// Native replay for <class>.header_round_trip: the witness bytes (W_b0..W_b23, total length W_n, rest zero) are parsed as the
// unit's class, serialized, and the non-derived header bytes compared with the input; the next-protocol tag must survive when the
// payload was not recognised (inner layer is a RawPDU).  Property C03.
#include <tins/tins.h>
#include <tins/loopback.h>
#include <tins/vxlan.h>
#include <tins/mpls.h>
#include "replay_util.h"
using namespace Tins;
static std::vector<uint8_t> B; static size_t N;
template <class T> static int run(int tag_off, int tag_len, const char* what) {
    ExactBuf in(B);
    try {
        T p(in.p, (uint32_t)N);
        uint32_t hs = p.header_size();
        bool raw_child = p.inner_pdu() && p.inner_pdu()->pdu_type() == PDU::RAW;
        std::vector<uint8_t> y = p.serialize();
        for (size_t k = 0; k < hs && k < N && k < y.size(); ++k) {
            bool tag = tag_off >= 0 && (int)k >= tag_off && (int)k < tag_off + tag_len;
            if (tag && !raw_child) continue;     // derived when a recognised payload follows / no payload
            if (y[k] != B[k]) { printf("DEFECT: %s header byte %zu parsed as 0x%02x is serialized as 0x%02x%s\n", what, k, B[k], y[k], tag ? " (next-protocol tag in front of an unrecognised payload)" : ""); return 1; }
        }
    } catch (const malformed_packet&) { printf("input rejected (not an accepted byte string)\n"); return 0; }
    printf("ok\n"); return 0;
}
int main(int, char** argv) {
    Replay r(argv[1]);
    N = (size_t)r.num("W_n", 24);
    B.assign(N, 0);
    for (size_t i = 0; i < 24 && i < N; ++i) { char k[16]; snprintf(k, sizeof k, "W_b%zu", i); B[i] = (uint8_t)r.num(k, 0); }
    std::string u = r.str("unit");
    if (u.find("ethernetii.") == 0) return run<EthernetII>(12, 2, "EthernetII");
    if (u.find("dot1q.") == 0) return run<Dot1Q>(2, 2, "Dot1Q");
    if (u.find("snap.") == 0) return run<SNAP>(6, 2, "SNAP");
    if (u.find("sll.") == 0) return run<SLL>(14, 2, "SLL");
    if (u.find("dot3.") == 0) return run<Dot3>(12, 2, "Dot3");          // length: always derived
    if (u.find("loopback.") == 0) return run<Loopback>(0, 4, "Loopback");
    if (u.find("arp.") == 0) return run<ARP>(-1, 0, "ARP");
    if (u.find("vxlan.") == 0) return run<VXLAN>(-1, 0, "VXLAN");
    if (u.find("stp.") == 0) return run<STP>(-1, 0, "STP");
    if (u.find("llc.") == 0) return run<LLC>(-1, 0, "LLC");
    if (u.find("mpls.") == 0) {   // the S bit is derived only when the label has a parent; a free-standing label keeps it
        ExactBuf in(B);
        try { MPLS p(in.p, (uint32_t)N); std::vector<uint8_t> y = p.serialize();
              for (size_t k = 0; k < 4 && k < y.size(); ++k) if (y[k] != B[k]) { printf("DEFECT: MPLS header byte %zu 0x%02x -> 0x%02x\n", k, B[k], y[k]); return 1; }
        } catch (const malformed_packet&) { return 0; }
        printf("ok\n"); return 0;
    }
    printf("no replay for unit %s\n", u.c_str()); return 0;
}
