// Demonstration (real libtins): PDUCacher<X> reports X's flag, so find_pdu<X>/tins_cast<X*> static_cast a cacher to X,
// and an X object answers to PDUCacher<X>::pdu_flag (both directions of the C13 defect).
#include <tins/tins.h>
#include <tins/pdu_cacher.h>
#include <cstdio>
using namespace Tins;
int main() {
    int bad = 0;
    EthernetII eth = EthernetII() / PDUCacher<IP>(IP("1.2.3.4", "5.6.7.8"));
    PDU* inner = eth.inner_pdu();
    IP* by_find = eth.find_pdu<IP>();
    IP* by_cast = tins_cast<IP*>(inner);
    IP* by_dyn = dynamic_cast<IP*>(inner);
    printf("inner is a %s\n", typeid(*inner).name());
    printf("find_pdu<IP>=%p tins_cast<IP*>=%p dynamic_cast<IP*>=%p\n", (void*)by_find, (void*)by_cast, (void*)by_dyn);
    if (by_find && !by_dyn) { printf("DEFECT: find_pdu<IP> hands back a PDUCacher<IP> as an IP\n"); ++bad; }
    if (by_cast && !by_dyn) { printf("DEFECT: tins_cast<IP*> hands back a PDUCacher<IP> as an IP\n"); ++bad; }
    EthernetII eth2 = EthernetII() / IP("1.2.3.4", "5.6.7.8");
    PDUCacher<IP>* c = eth2.find_pdu<PDUCacher<IP> >();
    if (c && !dynamic_cast<PDUCacher<IP>*>(eth2.inner_pdu())) { printf("DEFECT: find_pdu<PDUCacher<IP>> hands back an IP as a PDUCacher<IP>\n"); ++bad; }
    return bad ? 1 : 0;
}
