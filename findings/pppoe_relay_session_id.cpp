// Fixed defect (properties C04 / C15): on little-endian hosts PPPoE::RELAY_SESSION_ID was declared 0x101 (the byte swap of
// 0x0110 is 0x1001), the value of SERVICE_NAME: relay_session_id(v) wrote a Service-Name tag and relay_session_id() returned
// the first Service-Name tag's data.
// Build: g++ -std=c++11 -I/repo/include findings/pppoe_relay_session_id.cpp -L/repo/_build/lib -ltins -o /tmp/f && LD_LIBRARY_PATH=/repo/_build/lib /tmp/f
#include <tins/tins.h>
#include <cstdio>
using namespace Tins;
int main() {
    PPPoE p; p.code(7); p.service_name("svc");
    std::vector<uint8_t> id(4, 0x42); p.relay_session_id(id);
    std::vector<uint8_t> y = p.serialize();
    printf("second tag type on the wire: %02x%02x (RFC 2516 Relay-Session-Id is 0110)\n", y[6 + 4 + 3], y[6 + 4 + 3 + 1]);
    PPPoE q(y.data(), (uint32_t)y.size());
    bool ok = q.relay_session_id() == id && q.service_name() == "svc" && y[13] == 0x01 && y[14] == 0x10;
    printf("%s\n", ok ? "ok" : "DEFECT: relay_session_id() does not return the value set / wrong tag type");
    return ok ? 0 : 1;
}
