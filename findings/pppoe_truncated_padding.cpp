// Known finding (property C03): a PPPoE discovery frame whose payload length claims more octets than the capture holds is accepted
// with no tags; serialized inside EthernetII, the padding to 60 octets lies inside the claimed length and re-parses as empty tags.
// Build: g++ -std=c++11 -I/repo/include findings/pppoe_truncated_padding.cpp -L/repo/_build/lib -ltins -o /tmp/f && LD_LIBRARY_PATH=/repo/_build/lib /tmp/f
#include <tins/tins.h>
#include <cstdio>
using namespace Tins;
int main() {
    const uint8_t b[] = {0,0,0,0,0,0, 0,0,0,0,0,0, 0x88,0x63, 0x11,0x09,0x00,0x00, 0x00,0x2d};   // PADI, payload length 45, nothing follows
    EthernetII p(b, sizeof b);
    std::vector<uint8_t> y = p.serialize();
    EthernetII q(y.data(), (uint32_t)y.size());
    size_t n1 = p.rfind_pdu<PPPoE>().tags().size(), n2 = q.rfind_pdu<PPPoE>().tags().size();
    printf("tags in the parsed frame: %zu; after serialize + parse: %zu (%zu octets)\n", n1, n2, y.size());
    return n1 == n2 ? 0 : 1;
}
