#include <tins/tins.h>
#include <cstdio>
using namespace Tins;
int main() {
    PPPoE p; p.version(1); p.type(2);
    std::vector<uint8_t> y = p.serialize();
    printf("version 1, type 2 -> first octet 0x%02x (RFC 2516: VER is the high nibble, TYPE the low nibble: 0x12)\n", y[0]);
    return y[0] == 0x12 ? 0 : 1;
}
