// Native replay for tags.unknown_payload_preserved: SNAP, SLL and AH headers carrying a next-protocol tag libtins has no class for
// are parsed (the payload becomes a RawPDU), serialized and re-parsed; the tag must survive (property C03).
#include <tins/tins.h>
#include "replay_util.h"
using namespace Tins;
int main(int, char**) {
    int bad = 0;
    {   // LLC(aa aa 03) + SNAP org 00:00:00 EtherType 0x1234 + 4 payload bytes
        const uint8_t b[] = {0xaa,0xaa,0x03, 0,0,0, 0x12,0x34, 1,2,3,4};
        SNAP p(b, sizeof b); unsigned t0 = p.eth_type();
        std::vector<uint8_t> y = p.serialize();
        SNAP q(y.data(), (uint32_t)y.size());
        printf("SNAP eth_type parsed 0x%04x, after serialize+parse 0x%04x\n", t0, q.eth_type());
        if (q.eth_type() != 0x1234) { printf("DEFECT: SNAP EtherType overwritten in front of an unrecognised payload\n"); bad = 1; }
    }
    {
        const uint8_t b[] = {0,0, 0,1, 0,6, 1,2,3,4,5,6,0,0, 0x12,0x34, 9,9,9,9};
        SLL p(b, sizeof b); unsigned t0 = p.protocol();
        std::vector<uint8_t> y = p.serialize();
        SLL q(y.data(), (uint32_t)y.size());
        printf("SLL protocol parsed 0x%04x, after serialize+parse 0x%04x\n", t0, q.protocol());
        if (q.protocol() != 0x1234) { printf("DEFECT: SLL protocol overwritten in front of an unrecognised payload\n"); bad = 1; }
    }
    {   // AH: next header 0x8f (unassigned), length 1 ((1+2)*4 = 12 octets), reserved, SPI, seq, then payload
        const uint8_t b[] = {0x8f, 1, 0,0, 0,0,0,1, 0,0,0,2, 7,7,7,7};
        IPSecAH p(b, sizeof b); unsigned t0 = p.next_header();
        std::vector<uint8_t> y = p.serialize();
        IPSecAH q(y.data(), (uint32_t)y.size());
        printf("AH next_header parsed 0x%02x, after serialize+parse 0x%02x\n", t0, q.next_header());
        if (q.next_header() != 0x8f) { printf("DEFECT: AH next header overwritten in front of an unrecognised payload\n"); bad = 1; }
    }
    if (!bad) printf("ok\n");
    return bad;
}
