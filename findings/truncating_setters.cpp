// Demonstration (real libtins): sub-byte / scaled fields whose setters take a wider integer and silently truncate
// instead of rejecting (property C15: "values too large for a sub-byte or odd-width field are rejected with an error").
#include <tins/tins.h>
#include <cstdio>
using namespace Tins;
int main() {
    int bad = 0;
    DNS d;
    d.opcode(200);           printf("DNS::opcode(200) -> %u\n", (unsigned)d.opcode());           bad += d.opcode() != 200;
    d.rcode(0x1f);           printf("DNS::rcode(0x1f) -> %u\n", (unsigned)d.rcode());            bad += d.rcode() != 0x1f;
    d.recursion_desired(2);  printf("DNS::recursion_desired(2) -> %u\n", (unsigned)d.recursion_desired()); bad += d.recursion_desired() != 2;
    d.z(3);                  printf("DNS::z(3) -> %u\n", (unsigned)d.z());                       bad += d.z() != 3;
    STP s;
    s.fwd_delay(300);        printf("STP::fwd_delay(300) -> %u\n", (unsigned)s.fwd_delay());     bad += s.fwd_delay() != 300;
    s.max_age(256);          printf("STP::max_age(256) -> %u\n", (unsigned)s.max_age());         bad += s.max_age() != 256;
    printf("%d setters truncated without an error\n", bad);
    return bad ? 1 : 0;
}
