/* Prelude of every extracted unit (DESIGN 3.1/3.2). Hand-written, part of the trusted base. */
#ifndef TINS_PRELUDE_H
#define TINS_PRELUDE_H
#include <stdint.h>
#include <stddef.h>
#include <stdbool.h>
#include <string.h>
#include <stdlib.h>

/* libtins exception kinds (names as in include/tins/exceptions.h; value_too_large lives in small_uint.h) */
enum tins_exc_kind {
  EXC_none = 0, EXC_exception_base, EXC_option_not_found, EXC_malformed_packet,
  EXC_dns_decompression_pointer_out_of_bounds, EXC_dns_decompression_pointer_loops, EXC_serialization_error,
  EXC_pdu_not_found, EXC_invalid_interface, EXC_invalid_address, EXC_invalid_option_value, EXC_field_not_present,
  EXC_socket_open_error, EXC_socket_close_error, EXC_socket_write_error, EXC_invalid_socket_type,
  EXC_unknown_link_type, EXC_malformed_option, EXC_bad_tins_cast, EXC_protocol_disabled, EXC_feature_disabled,
  EXC_option_payload_too_large, EXC_invalid_ipv6_extension_header, EXC_pcap_error, EXC_invalid_pcap_filter,
  EXC_pdu_not_serializable, EXC_pcap_open_failed, EXC_unsupported_function, EXC_invalid_domain_name,
  EXC_stream_not_found, EXC_callback_not_set, EXC_invalid_packet, EXC_value_too_large, EXC_logic_error,
  EXC_runtime_error, EXC_out_of_range
};
/* which kinds may leave the unit: default = malformed_packet only (C01); units override with #! allow-exc */
#ifndef TINS_EXC_ALLOWED
#define TINS_EXC_ALLOWED(e) ((e) == EXC_malformed_packet)
#endif
/* R4: a throw ends the path; that the kind is permitted is an obligation of the unit */
#define TINS_THROW(E) do { __CPROVER_assert(TINS_EXC_ALLOWED(EXC_##E), "throws only permitted exception kinds: " #E); __CPROVER_assume(0); } while (0)
/* vacuity guard (DESIGN 3.4): must be reachable, i.e. must FAIL */
#define TINS_REACH(tag) __CPROVER_assert(0, "REACH:" tag)
#define TINS_DELETE(p) do { if (p) free((void*)(p)); } while (0)

/* R9: byte order. TINS_swapN are the library's own do_change_endian bodies (specs/lib/endian.h extracts them). */
uint16_t Endian_swap16(uint16_t data);
uint32_t Endian_swap32(uint32_t data);
uint64_t Endian_swap64(uint64_t data);
#define TINS_SWAP(x) _Generic((x), uint8_t: (x), int8_t: (x), bool: (x), uint16_t: Endian_swap16(x), int16_t: Endian_swap16(x), \
        uint32_t: Endian_swap32(x), int32_t: Endian_swap32(x), default: Endian_swap64(x))
/* the verified configuration is little-endian (config asserted by the runner from TINS_IS_LITTLE_ENDIAN) */
#define TINS_host_to_be(x) TINS_SWAP(x)
#define TINS_be_to_host(x) TINS_SWAP(x)
#define TINS_host_to_le(x) (x)
#define TINS_le_to_host(x) (x)

/* booleans that were havocked may hold any non-zero byte: compare truth values, not bytes */
#define TINS_BEQ(a,b) ((!(a)) == (!(b)))
/* assumption 8 (DESIGN 6): comparing a pointer that was stepped one element outside its array is integer arithmetic
   on the machine; CBMC's pointer difference is signed, so the comparison is done on the difference within the same object */
#define TINS_PTR_GE(a, b) ((a) - (b) >= 0)
#define TINS_PTR_LT(a, b) ((a) - (b) < 0)
#define TINS_MIN(a,b) ((a) < (b) ? (a) : (b))
#define TINS_MAX(a,b) ((a) > (b) ? (a) : (b))

/* nondeterministic values */
uint8_t nondet_u8(void); uint16_t nondet_u16(void); uint32_t nondet_u32(void); uint64_t nondet_u64(void);
size_t nondet_size(void); int nondet_int(void); _Bool nondet_bool(void);
#endif
