// Native replay for the typed option decoders (decoder.<class>_<type>, C01): the decoder named by the unit is run on options of
// every length 0..64 with four fill patterns, each in an exact-size heap block, under ASan/UBSan.  A sanitizer report or an
// exception that is not a libtins exception is the defect; malformed_option / option_not_found / malformed_packet are the
// permitted rejections.
#include <tins/tins.h>
#include "replay_util.h"
using namespace Tins;
template <class OptT, class F> static int sweep(F f) {
    static const uint8_t fills[] = {0x00, 0xff, 0x01, 0x7f};
    for (size_t n = 0; n <= 64; ++n) for (uint8_t fill : fills) for (int var = 0; var < 3; ++var) {
        std::vector<uint8_t> v(n, fill);
        if (var == 1) for (size_t i = 0; i < n; ++i) v[i] = (uint8_t)(i + 1);
        if (var == 2 && n) { v[0] = (uint8_t)n; if (n > 1) v[1] = (uint8_t)(n - 1); }
        ExactBuf in(v);
        try { OptT o((typename OptT::option_type)1, n, in.p); f(o); }
        catch (const exception_base&) { }
        catch (const std::length_error&) { }
        catch (const std::exception& e) { printf("DEFECT: length %zu: non-libtins exception %s\n", n, e.what()); return 1; }
    }
    printf("ok\n"); return 0;
}
int main(int, char** argv) {
    Replay r(argv[1]);
    std::string u = r.str("unit");
    if (u == "decoder.icmpv6_addr_list_type") return sweep<ICMPv6::option>([](const ICMPv6::option& o) { (void)ICMPv6::addr_list_type::from_option(o); });
    if (u == "decoder.icmpv6_naack_type") return sweep<ICMPv6::option>([](const ICMPv6::option& o) { (void)ICMPv6::naack_type::from_option(o); });
    if (u == "decoder.icmpv6_lladdr_type") return sweep<ICMPv6::option>([](const ICMPv6::option& o) { (void)ICMPv6::lladdr_type::from_option(o); });
    if (u == "decoder.icmpv6_prefix_info_type") return sweep<ICMPv6::option>([](const ICMPv6::option& o) { (void)ICMPv6::prefix_info_type::from_option(o); });
    if (u == "decoder.icmpv6_rsa_sign_type") return sweep<ICMPv6::option>([](const ICMPv6::option& o) { (void)ICMPv6::rsa_sign_type::from_option(o); });
    if (u == "decoder.icmpv6_ip_prefix_type") return sweep<ICMPv6::option>([](const ICMPv6::option& o) { (void)ICMPv6::ip_prefix_type::from_option(o); });
    if (u == "decoder.icmpv6_map_type") return sweep<ICMPv6::option>([](const ICMPv6::option& o) { (void)ICMPv6::map_type::from_option(o); });
    if (u == "decoder.icmpv6_route_info_type") return sweep<ICMPv6::option>([](const ICMPv6::option& o) { (void)ICMPv6::route_info_type::from_option(o); });
    if (u == "decoder.icmpv6_recursive_dns_type") return sweep<ICMPv6::option>([](const ICMPv6::option& o) { (void)ICMPv6::recursive_dns_type::from_option(o); });
    if (u == "decoder.icmpv6_handover_key_req_type") return sweep<ICMPv6::option>([](const ICMPv6::option& o) { (void)ICMPv6::handover_key_req_type::from_option(o); });
    if (u == "decoder.icmpv6_handover_key_reply_type") return sweep<ICMPv6::option>([](const ICMPv6::option& o) { (void)ICMPv6::handover_key_reply_type::from_option(o); });
    if (u == "decoder.icmpv6_handover_assist_info_type") return sweep<ICMPv6::option>([](const ICMPv6::option& o) { (void)ICMPv6::handover_assist_info_type::from_option(o); });
    if (u == "decoder.icmpv6_mobile_node_id_type") return sweep<ICMPv6::option>([](const ICMPv6::option& o) { (void)ICMPv6::mobile_node_id_type::from_option(o); });
    if (u == "decoder.icmpv6_timestamp_type") return sweep<ICMPv6::option>([](const ICMPv6::option& o) { (void)ICMPv6::timestamp_type::from_option(o); });
    if (u == "decoder.icmpv6_shortcut_limit_type") return sweep<ICMPv6::option>([](const ICMPv6::option& o) { (void)ICMPv6::shortcut_limit_type::from_option(o); });
    if (u == "decoder.icmpv6_new_advert_interval_type") return sweep<ICMPv6::option>([](const ICMPv6::option& o) { (void)ICMPv6::new_advert_interval_type::from_option(o); });
    if (u == "decoder.dhcpv6_ia_na_type") return sweep<DHCPv6::option>([](const DHCPv6::option& o) { (void)DHCPv6::ia_na_type::from_option(o); });
    if (u == "decoder.dhcpv6_ia_ta_type") return sweep<DHCPv6::option>([](const DHCPv6::option& o) { (void)DHCPv6::ia_ta_type::from_option(o); });
    if (u == "decoder.dhcpv6_ia_address_type") return sweep<DHCPv6::option>([](const DHCPv6::option& o) { (void)DHCPv6::ia_address_type::from_option(o); });
    if (u == "decoder.dhcpv6_authentication_type") return sweep<DHCPv6::option>([](const DHCPv6::option& o) { (void)DHCPv6::authentication_type::from_option(o); });
    if (u == "decoder.dhcpv6_status_code_type") return sweep<DHCPv6::option>([](const DHCPv6::option& o) { (void)DHCPv6::status_code_type::from_option(o); });
    if (u == "decoder.dhcpv6_vendor_info_type") return sweep<DHCPv6::option>([](const DHCPv6::option& o) { (void)DHCPv6::vendor_info_type::from_option(o); });
    if (u == "decoder.dhcpv6_vendor_class_type") return sweep<DHCPv6::option>([](const DHCPv6::option& o) { (void)DHCPv6::vendor_class_type::from_option(o); });
    if (u == "decoder.dhcpv6_duid_type") return sweep<DHCPv6::option>([](const DHCPv6::option& o) { (void)DHCPv6::duid_type::from_option(o); });
    if (u == "decoder.dhcpv6_user_class_type") return sweep<DHCPv6::option>([](const DHCPv6::option& o) { (void)DHCPv6::user_class_type::from_option(o); });
    if (u == "decoder.dot11_fh_params_set") return sweep<Dot11::option>([](const Dot11::option& o) { (void)Dot11ManagementFrame::fh_params_set::from_option(o); });
    if (u == "decoder.dot11_cf_params_set") return sweep<Dot11::option>([](const Dot11::option& o) { (void)Dot11ManagementFrame::cf_params_set::from_option(o); });
    if (u == "decoder.dot11_ibss_dfs_params") return sweep<Dot11::option>([](const Dot11::option& o) { (void)Dot11ManagementFrame::ibss_dfs_params::from_option(o); });
    if (u == "decoder.dot11_country_params") return sweep<Dot11::option>([](const Dot11::option& o) { (void)Dot11ManagementFrame::country_params::from_option(o); });
    if (u == "decoder.dot11_fh_pattern_type") return sweep<Dot11::option>([](const Dot11::option& o) { (void)Dot11ManagementFrame::fh_pattern_type::from_option(o); });
    if (u == "decoder.dot11_channel_switch_type") return sweep<Dot11::option>([](const Dot11::option& o) { (void)Dot11ManagementFrame::channel_switch_type::from_option(o); });
    if (u == "decoder.dot11_quiet_type") return sweep<Dot11::option>([](const Dot11::option& o) { (void)Dot11ManagementFrame::quiet_type::from_option(o); });
    if (u == "decoder.dot11_bss_load_type") return sweep<Dot11::option>([](const Dot11::option& o) { (void)Dot11ManagementFrame::bss_load_type::from_option(o); });
    if (u == "decoder.dot11_tim_type") return sweep<Dot11::option>([](const Dot11::option& o) { (void)Dot11ManagementFrame::tim_type::from_option(o); });
    if (u == "decoder.ip_security_type") return sweep<IP::option>([](const IP::option& o) { (void)IP::security_type::from_option(o); });
    if (u == "decoder.ip_generic_route_option_type") return sweep<IP::option>([](const IP::option& o) { (void)IP::generic_route_option_type::from_option(o); });
    if (u == "decoder.pppoe_vendor_spec_type") return sweep<PPPoE::tag>([](const PPPoE::tag& o) { (void)PPPoE::vendor_spec_type::from_option(o); });
    printf("no native sweep for %s\n", u.c_str()); return 0;
}
