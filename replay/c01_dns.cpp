// Native replay for the DNS walker units (C01/C10). The modular counterexample of a loop-contract proof is the state of
// one arbitrary iteration, not a message; this driver therefore feeds the real library the canonical message family
// for the failed obligation (named in the replay file) from exact-size heap blocks, under ASan/UBSan:
//   compose_name reads *ptr at the end of the record area  <-  a record whose last label ends exactly at the end.
#include <tins/tins.h>
#include "replay_util.h"
using namespace Tins;
static int run(const std::vector<uint8_t>& msg, const char* what) {
    ExactBuf b(msg);
    try {
        DNS dns(b.p, (uint32_t)b.n);
        // the DNS object keeps its own copy of the record bytes: shrink-to-fit copy so that ASan sees the end
        DNS copy(dns);
        size_t n = copy.queries().size() + copy.answers().size() + copy.authority().size() + copy.additional().size();
        printf("%s: parsed, %zu records decoded\n", what, n);
    } catch (const exception_base& e) {
        printf("%s: libtins exception: %s\n", what, e.what());
    }
    return 0;
}
int main(int argc, char** argv) {
    Replay r(argv[1]);
    if (r.str("obligation").find("pointer_loops") != std::string::npos) {
        // a legal 34-label name (ip6.arpa) must be readable: only followed pointers may count against the loop limit
        std::string name = "b.a.9.8.7.6.5.0.0.0.0.0.0.0.0.0.0.0.0.0.0.0.0.0.8.b.d.0.1.0.0.2.ip6.arpa";
        DNS dns; dns.add_query(DNS::query(name, DNS::PTR, DNS::IN));
        try { return dns.queries().at(0).dname() == name ? 0 : 1; }
        catch (const std::exception& e) { printf("DEFECT: queries() threw %s for a legal 34-label name\n", e.what()); return 1; }
    }
    // 27-byte response: 1 answer, root owner name, CNAME, RDLENGTH 4, RDATA = 03 'a' 'b' 'c' (no terminating zero)
    static const uint8_t m1[] = { 0x12,0x34, 0x81,0x80, 0,0, 0,1, 0,0, 0,0,   0,  0,5, 0,1, 0,0,0,60, 0,4,  3,'a','b','c' };
    run(std::vector<uint8_t>(m1, m1 + sizeof m1), "CNAME whose last label ends at the end of the message");
    // 23-byte response: CNAME with RDLENGTH 0 as the last record: compose_name is called with ptr == end
    static const uint8_t m2[] = { 0x12,0x34, 0x81,0x80, 0,0, 0,1, 0,0, 0,0,   0,  0,5, 0,1, 0,0,0,60, 0,0 };
    run(std::vector<uint8_t>(m2, m2 + sizeof m2), "CNAME with empty RDATA at the end of the message");
    // query whose name has no terminator
    static const uint8_t m3[] = { 0x12,0x34, 0x01,0x00, 0,1, 0,0, 0,0, 0,0,   3,'a','b','c' };
    run(std::vector<uint8_t>(m3, m3 + sizeof m3), "question whose name runs to the end of the message");
    return 0;
}
