// Native replay for C01 parser units. A failed obligation of a modular proof is not an input, so this driver searches a
// bounded family of buffers (every length 0..96; all-zero, all-ones, counting and VERIF_SEED-random contents, each in an
// exact-size heap block) for one on which the REAL constructor misbehaves under ASan/UBSan or lets a non-libtins
// exception escape. Exit 0 = none found (the VIOLATION line then says no-failing-input-found).
#include <tins/tins.h>
#include <tins/pktap.h>
#include <tins/ppi.h>
#include <tins/loopback.h>
#include <tins/detail/pdu_helpers.h>
#include "replay_util.h"
#include <random>
#include <typeinfo>
using namespace Tins;
template <class T> static void build(const uint8_t* p, uint32_t n) { T t(p, n); (void)t.size(); PDU* c = t.clone(); delete c; }
static void from_bytes_dot11(const uint8_t* p, uint32_t n) { PDU* x = Dot11::from_bytes(p, n); delete x; }
static void from_bytes_eapol(const uint8_t* p, uint32_t n) { PDU* x = EAPOL::from_bytes(p, n); delete x; }
static void rsn(const uint8_t* p, uint32_t n) { RSNInformation r(p, n); (void)r.serialize(); }
static void dns(const uint8_t* p, uint32_t n) { DNS d(p, n); d.queries(); d.answers(); d.authority(); d.additional(); }
static void icmp_ext(const uint8_t* p, uint32_t n) { ICMPExtension e(p, n); (void)e.size(); }
static void icmp_exts(const uint8_t* p, uint32_t n) { if (ICMPExtensionsStructure::validate_extensions(p, n)) { ICMPExtensionsStructure s(p, n); (void)s.size(); } }
static void dot3_discriminator(const uint8_t* p, uint32_t n) {
    volatile bool b = Internals::is_dot3(p, n); (void)b;           // the real inline function on the exact-size block
    std::vector<uint8_t> v(8 + n); v[2] = 8; v[4] = 1;             // the same bytes as the payload of a PPI header with DLT_EN10MB
    if (n) memcpy(&v[8], p, n);
    ExactBuf w(v);
    try { PPI x(w.p, (uint32_t)v.size()); } catch (const exception_base&) {}
}
typedef void (*fn)(const uint8_t*, uint32_t);
int main(int argc, char** argv) {
    Replay r(argv[1]);
    std::string u = r.str("unit");
    struct { const char* prefix; fn f; } table[] = {
        {"tcp.", build<TCP>}, {"ip.", build<IP>}, {"ipv6.", build<IPv6>}, {"udp.", build<UDP>}, {"ethernetii.", build<EthernetII>},
        {"dot3.", build<Dot3>}, {"snap.", build<SNAP>}, {"dot1q.", build<Dot1Q>}, {"mpls.", build<MPLS>}, {"sll.", build<SLL>},
        {"loopback.", build<Loopback>}, {"arp.", build<ARP>}, {"stp.", build<STP>}, {"vxlan.", build<VXLAN>}, {"pktap.", build<PKTAP>},
        {"dhcpv6.", build<DHCPv6>}, {"bootp.", build<BootP>}, {"dhcp.", build<DHCP>}, {"pppoe.", build<PPPoE>}, {"ipsecah.", build<IPSecAH>},
        {"ipsecesp.", build<IPSecESP>}, {"rtp.", build<RTP>}, {"ppi.", build<PPI>}, {"rc4eapol.", build<RC4EAPOL>}, {"rsneapol.", build<RSNEAPOL>},
        {"eapol.", from_bytes_eapol}, {"rsn_information.", rsn}, {"icmp_extension.", icmp_ext}, {"icmp_extensions", icmp_exts}, {"icmp.", build<ICMP>},
        {"icmpv6.", build<ICMPv6>}, {"llc.", build<LLC>}, {"radiotap", build<RadioTap>}, {"dot11", from_bytes_dot11}, {"dns.", dns}, {"internals.is_dot3", dot3_discriminator},
    };
    fn f = 0;
    for (auto& e : table) if (u.find(e.prefix) == 0) { f = e.f; break; }
    if (!f) { printf("no native entry point for unit %s\n", u.c_str()); return 0; }
    const char* seed = getenv("VERIF_SEED");
    std::mt19937 rng(seed ? atoi(seed) : 1);
    unsigned long tried = 0;
    for (uint32_t n = 0; n <= 96; ++n) {
        for (int pat = 0; pat < 24; ++pat) {
            std::vector<uint8_t> v(n);
            for (uint32_t i = 0; i < n; ++i) v[i] = pat == 0 ? 0 : pat == 1 ? 0xff : pat == 2 ? (uint8_t)i : pat == 3 ? (uint8_t)(n - i) : (uint8_t)rng();
            ExactBuf b(v);
            ++tried;
            try { f(b.p, n); }
            catch (const exception_base&) {}
            catch (const std::exception& e) { printf("non-libtins exception %s (%s) escaped for a %u-byte buffer (pattern %d)\n", typeid(e).name(), e.what(), n, pat); return 1; }
        }
    }
    printf("%lu buffers of 0..96 bytes: no sanitizer report, only libtins exceptions\n", tried);
    return 0;
}
