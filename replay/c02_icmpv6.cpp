// Native replay for icmpv6.serializer_frame / icmp.serializer_frame (C02): an ICMPv6 (or ICMP) layer with RFC 4884 extensions
// over a raw payload of several lengths (both sides of the 128-octet threshold, every alignment residue) and several header
// shapes is serialized; the payload written by the inner layer must come out untouched at offset header_size().
#include <tins/tins.h>
#include "replay_util.h"
using namespace Tins;
template <class L> static int check(const char* name, L& l, uint32_t plen) {
    std::vector<uint8_t> payload(plen);
    for (uint32_t i = 0; i < plen; ++i) payload[i] = (uint8_t)(0xa0 + i % 0x50);
    l.inner_pdu(RawPDU(payload.begin(), payload.end()));
    uint32_t hs = l.header_size();
    std::vector<uint8_t> y;
    try { y = l.serialize(); } catch (const std::exception& e) { printf("DEFECT [%s, payload %u]: serialize threw %s\n", name, plen, e.what()); return 1; }
    if (y.size() != l.size()) { printf("DEFECT [%s]: %zu octets, size() says %u\n", name, y.size(), l.size()); return 1; }
    for (uint32_t i = 0; i < plen; ++i) if (y[hs + i] != payload[i]) { printf("DEFECT [%s, payload %u]: inner PDU octet %u overwritten (0x%02x -> 0x%02x)\n", name, plen, i, payload[i], y[hs + i]); return 1; }
    return 0;
}
int main(int, char**) {
    static const uint32_t lens[] = {1, 7, 8, 60, 127, 128, 129, 133, 136, 200};
    const uint8_t ep[] = {0xde, 0xad, 0xbe, 0xef, 0xca, 0xfe, 0xba, 0xbe};
    for (uint32_t plen : lens) {
        for (int shape = 0; shape < 4; ++shape) {
            ICMPv6 l(shape == 0 ? ICMPv6::TIME_EXCEEDED : shape == 1 ? ICMPv6::NEIGHBOUR_SOLICIT : shape == 2 ? ICMPv6::REDIRECT : ICMPv6::ROUTER_ADVERT);
            if (shape == 1 || shape == 2) l.target_addr("fe80::1");
            if (shape == 2) l.dest_addr("fe80::2");
            if (shape == 3) l.source_link_layer_addr("00:11:22:33:44:55");
            ICMPExtension ext(1, 1); ext.payload(ICMPExtension::payload_type(ep, ep + sizeof ep));
            l.extensions().add_extension(ext);
            if (check("ICMPv6", l, plen)) return 1;
        }
        for (int shape4 = 0; shape4 < 3; ++shape4) {
        ICMP v4(shape4 == 0 ? ICMP::TIME_EXCEEDED : shape4 == 1 ? ICMP::TIMESTAMP_REQUEST : ICMP::ADDRESS_MASK_REQUEST);
        ICMPExtension ext(1, 1); ext.payload(ICMPExtension::payload_type(ep, ep + sizeof ep));
        v4.extensions().add_extension(ext);
        if (check("ICMP", v4, plen)) return 1;
        }
    }
    printf("ok\n"); return 0;
}
