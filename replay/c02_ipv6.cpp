// Native replay for ipv6.headers_size_count: rebuild the witness extension-header list on a real IPv6 object with a
// recognisable payload and serialize: |serialize()| == size(), no exception, payload intact after header_size() bytes.
#include <tins/tins.h>
#include "replay_util.h"
using namespace Tins;
int main(int argc, char** argv) {
    Replay r(argv[1]);
    size_t n = (size_t)r.num("t.ext_n", 2);
    if (n > 3) n = 3;
    if (n == 0) n = 2;
    IPv6 ip("::1", "::2");
    for (size_t i = 0; i < n; ++i) {
        size_t dsz = (size_t)r.num(std::string("W_hdr[") + std::to_string(i) + "l].real_size_", r.num(std::string("W_hdr[") + std::to_string(i) + "].real_size_", 2));
        if (dsz > 2040) dsz = 2040;
        std::vector<uint8_t> data(dsz, 0x5a);
        ip.add_header(IPv6::ext_header(IPv6::DESTINATION_OPTIONS, data.begin(), data.end()));
        printf("extension header %zu: data_size=%zu\n", i, dsz);
    }
    const std::string payload = "PAYLOAD-PAYLOAD!";
    IPv6 pkt = ip / RawPDU(payload);
    uint32_t declared = pkt.size();
    try {
        std::vector<uint8_t> bytes = pkt.serialize();
        size_t off = pkt.header_size();
        printf("size()=%u serialized=%zu header_size()=%zu\n", declared, bytes.size(), off);
        if (bytes.size() != declared) { printf("DEFECT: |serialize()| != size()\n"); return 1; }
        if (off + payload.size() > bytes.size() || memcmp(&bytes[off], payload.data(), payload.size()) != 0) { printf("DEFECT: payload bytes overwritten by the IPv6 layer\n"); return 1; }
    } catch (const std::exception& e) { printf("DEFECT: serialize() threw: %s\n", e.what()); return 1; }
    printf("ok\n");
    return 0;
}
