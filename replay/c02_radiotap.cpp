// Native replay for radiotap.serializer_frame (C02): a RadioTap header with the FCS flag over an 802.11 data frame with payloads
// of several lengths is serialized: the inner frame must come out untouched behind the header, and the 4 FCS octets follow it.
#include <tins/tins.h>
#include "replay_util.h"
using namespace Tins;
int main(int, char**) {
    for (size_t n : {0u, 1u, 7u, 60u, 300u}) {
        RadioTap r; r.flags(RadioTap::FCS);
        Dot11Data d; std::vector<uint8_t> pl(n); for (size_t i = 0; i < n; ++i) pl[i] = (uint8_t)(0xa0 + i % 0x50);
        d.inner_pdu(RawPDU(pl.begin(), pl.end()));
        std::vector<uint8_t> inner = d.serialize();
        r.inner_pdu(d);
        std::vector<uint8_t> y = r.serialize();
        uint32_t hs = r.header_size();
        if (y.size() != hs + inner.size() + 4) { printf("DEFECT: %zu octets, expected header %u + frame %zu + FCS 4\n", y.size(), hs, inner.size()); return 1; }
        for (size_t i = 0; i < inner.size(); ++i) if (y[hs + i] != inner[i]) { printf("DEFECT: inner frame octet %zu overwritten\n", i); return 1; }
        uint32_t crc = Utils::crc32(inner.data(), (uint32_t)inner.size());
        if (y[hs + inner.size()] != (crc & 0xff) || y[hs + inner.size() + 3] != (crc >> 24)) { printf("DEFECT: FCS does not protect the inner frame\n"); return 1; }
    }
    printf("ok\n"); return 0;
}
