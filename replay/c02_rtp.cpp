// Native replay for rtp.serializer_frame (C02): RTP with CSRC ids, extension words and padding over payloads of several lengths.
#include <tins/tins.h>
#include <tins/rtp.h>
#include "replay_util.h"
using namespace Tins;
int main(int, char**) {
    for (size_t n : {0u, 1u, 5u, 160u}) for (int ncsrc : {0, 3}) for (int next : {0, 2}) for (int pad : {0, 4}) {
        RTP r;
        for (int i = 0; i < ncsrc; ++i) r.add_csrc_id(0x1000 + i);
        for (int i = 0; i < next; ++i) r.add_extension_data(0x2000 + i);
        if (pad) r.padding_size((uint8_t)pad);
        std::vector<uint8_t> pl(n); for (size_t i = 0; i < n; ++i) pl[i] = (uint8_t)(0xa0 + i % 0x50);
        if (n) r.inner_pdu(RawPDU(pl.begin(), pl.end()));
        std::vector<uint8_t> y;
        try { y = r.serialize(); } catch (const std::exception& e) { printf("DEFECT: serialize threw %s (payload %zu, %d csrc, %d ext, pad %d)\n", e.what(), n, ncsrc, next, pad); return 1; }
        uint32_t hs = r.header_size();
        if (y.size() != hs + n + (size_t)pad) { printf("DEFECT: %zu octets, expected %u + %zu + %d\n", y.size(), hs, n, pad); return 1; }
        for (size_t i = 0; i < n; ++i) if (y[hs + i] != pl[i]) { printf("DEFECT: payload octet %zu overwritten\n", i); return 1; }
        if (pad && y.back() != pad) { printf("DEFECT: last padding octet is not the padding count\n"); return 1; }
    }
    printf("ok\n"); return 0;
}
