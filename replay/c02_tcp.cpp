// Native replay for the TCP option size units: rebuild the witness option list (kind, data size) on a real TCP object,
// put a recognisable payload behind it and serialize: the property demands |serialize()| == size(), no exception, and
// the payload bytes unmodified right after header_size() bytes.
#include <tins/tins.h>
#include "replay_util.h"
using namespace Tins;
int main(int argc, char** argv) {
    Replay r(argv[1]);
    size_t n = (size_t)r.num("t.options_n", 1);
    if (n > 3) n = 3;
    if (n == 0) n = 1;
    TCP tcp(80, 1234);
    for (size_t i = 0; i < n; ++i) {
        char k1[64], k2[64];
        snprintf(k1, sizeof k1, "W_opt[%zul].option_", i); snprintf(k2, sizeof k2, "W_opt[%zul].real_size_", i);
        unsigned kind = (unsigned)r.num(k1, r.num(std::string("W_opt[") + std::to_string(i) + "].option_", 34)) & 0xff;
        size_t dsz = (size_t)r.num(k2, r.num(std::string("W_opt[") + std::to_string(i) + "].real_size_", 0));
        if (dsz > 40) dsz = 40;
        std::vector<uint8_t> data(dsz, 0xab);
        tcp.add_option(TCP::option((TCP::OptionTypes)kind, data.begin(), data.end()));
        printf("option %zu: kind=%u data_size=%zu\n", i, kind, dsz);
    }
    const std::string payload = "PAYLOAD-PAYLOAD!";
    IP pkt = IP("1.2.3.4", "5.6.7.8") / tcp / RawPDU(payload);
    uint32_t declared = pkt.size();
    try {
        std::vector<uint8_t> bytes = pkt.serialize();
        const TCP& t = pkt.rfind_pdu<TCP>();
        size_t off = 20 + t.header_size();
        printf("size()=%u serialized=%zu tcp.header_size()=%u\n", declared, bytes.size(), t.header_size());
        if (bytes.size() != declared) { printf("DEFECT: |serialize()| != size()\n"); return 1; }
        if (off + payload.size() > bytes.size() || memcmp(&bytes[off], payload.data(), payload.size()) != 0) { printf("DEFECT: payload bytes overwritten by the TCP layer\n"); return 1; }
    } catch (const std::exception& e) {
        printf("DEFECT: serialize() threw: %s\n", e.what());
        return 1;
    }
    printf("ok\n");
    return 0;
}
