// Native replay for dhcp.option_accounting / dhcp.option_wire_image / dhcp.option_list_wire_image: a DHCP message whose options
// include PAD (0) and END (255) is parsed, serialized and re-parsed: same length, same option list (property C03).
// With a witness (W_code[i], W_len[i]) the option list of the counterexample is used; otherwise a fixed list.
#include <tins/tins.h>
#include "replay_util.h"
using namespace Tins;
int main(int argc, char** argv) {
    std::vector<uint8_t> b(240, 0);
    b[0] = 1; b[1] = 1; b[2] = 6;
    b[236] = 0x63; b[237] = 0x82; b[238] = 0x53; b[239] = 0x63;
    std::vector<uint8_t> opts;
    if (argc > 1) {
        Replay r(argv[1]);
        std::vector<uint8_t> codes = r.bytes("W_code", 2), lens = r.bytes("W_len", 2);
        if (r.has("W_code") && !r.has("W_code[0l]")) { codes[0] = (uint8_t)r.num("W_code"); lens[0] = (uint8_t)r.num("W_len"); codes.resize(1); }
        else if (!r.has("W_code[0l]") && !r.has("W_code[0]")) codes.clear();
        for (size_t i = 0; i < codes.size(); ++i) {
            opts.push_back(codes[i]);
            if (codes[i] == 0 || codes[i] == 255) continue;
            opts.push_back(lens[i]);
            for (unsigned k = 0; k < lens[i]; ++k) opts.push_back((uint8_t)(0x41 + i + k));
        }
    }
    if (opts.empty()) { const uint8_t fixed[] = {53, 1, 1, 0, 0, 255}; opts.assign(fixed, fixed + sizeof fixed); }        // message type = DISCOVER, PAD, PAD, END
    b.insert(b.end(), opts.begin(), opts.end());
    ExactBuf in(b);
    DHCP p(in.p, (uint32_t)b.size());
    std::vector<uint8_t> y = p.serialize();
    DHCP q(y.data(), (uint32_t)y.size());
    printf("input %zu bytes, %zu options; serialization %zu bytes, re-parsed %zu options\n", b.size(), p.options().size(), y.size(), q.options().size());
    if (y.size() != b.size() || q.options().size() != p.options().size()) { printf("DEFECT: the serialization does not parse back to the same option list\n"); return 1; }
    if (y != b) { printf("DEFECT: bytes differ: the options of the parsed message are not written as they were read (RFC 2132)\n"); return 1; }
    printf("ok\n"); return 0;
}
