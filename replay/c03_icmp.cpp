// Native replay for icmp.header_round_trip: the witness bytes (W_b0..W_b19, total length W_n, rest zero) are parsed as ICMP,
// serialized, and every non-derived header byte compared with the input (property C03).
#include <tins/tins.h>
#include "replay_util.h"
using namespace Tins;
int main(int, char** argv) {
    Replay r(argv[1]);
    size_t n = (size_t)r.num("W_n", 12);
    std::vector<uint8_t> b(n, 0);
    for (size_t i = 0; i < 20 && i < n; ++i) { char k[16]; snprintf(k, sizeof k, "W_b%zu", i); b[i] = (uint8_t)r.num(k, 0); }
    ExactBuf in(b);
    try {
        ICMP p(in.p, (uint32_t)n);
        uint32_t hs = p.header_size();
        bool ext_allowed = p.type() == ICMP::DEST_UNREACHABLE || p.type() == ICMP::TIME_EXCEEDED || p.type() == ICMP::PARAM_PROBLEM;
        std::vector<uint8_t> y = p.serialize();
        if (y.size() != n) { printf("DEFECT: %zu bytes in, %zu bytes out\n", n, y.size()); return 1; }
        for (size_t k = 0; k < hs && k < n; ++k) {
            if (k == 2 || k == 3 || (k == 5 && ext_allowed)) continue;
            if (y[k] != b[k]) { printf("DEFECT: ICMP type %u: header byte %zu parsed as 0x%02x is serialized as 0x%02x\n", (unsigned)b[0], k, b[k], y[k]); return 1; }
        }
        for (size_t k = hs; k < n; ++k) if (y[k] != b[k]) { printf("DEFECT: payload byte %zu changed\n", k); return 1; }
    } catch (const malformed_packet&) { printf("input rejected (not an accepted byte string)\n"); return 0; }
    printf("ok\n"); return 0;
}
