// Native replay for icmp_extensions.checksum_recognition: an ICMP time-exceeded message with one extension object whose
// words (with the structure's first word) add up past 0xffff is serialized and re-parsed: the extension must come back.
#include <tins/tins.h>
#include "replay_util.h"
using namespace Tins;
int main(int argc, char** argv) {
    Replay r(argv[1]);
    ICMP icmp(ICMP::TIME_EXCEEDED);
    ICMPExtension ext(1, 1);
    // object bytes 00 0c 01 01 | ef f2 00 00 00 00 00 00: native words 0x0c00 + 0x0101 + 0xf2ef = 0xfff0; first word of the
    // structure (20 00 -> 0x0020) brings the 32-bit sum to 0x10010: an end-around carry is needed
    ICMPExtension::payload_type pl(8, 0); pl[0] = 0xef; pl[1] = 0xf2;
    ext.payload(pl);
    icmp.extensions().add_extension(ext);
    IP pkt = IP("1.2.3.4", "5.6.7.8") / icmp / RawPDU(std::vector<uint8_t>(128, 0x11));
    std::vector<uint8_t> bytes = pkt.serialize();
    IP back(bytes.data(), (uint32_t)bytes.size());
    const ICMP& i2 = back.rfind_pdu<ICMP>();
    size_t n = i2.extensions().extensions().size();
    printf("extensions before: 1, after serialize + parse: %zu\n", n);
    if (n != 1) { printf("DEFECT: the extension structure libtins wrote is not recognised by its own parser\n"); return 1; }
    return 0;
}
