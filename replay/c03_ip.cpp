// Native replay for ip.header_options_round_trip (C03): the witness datagram (W_b0..W_b27, length W_n, rest zero) is parsed as IP,
// serialized, and compared with the input: same header length, same non-derived header and option octets, payload untouched.
#include <tins/tins.h>
#include "replay_util.h"
#include <algorithm>
using namespace Tins;
static int run(std::vector<uint8_t> b, size_t n);
int main(int, char** argv) {
    Replay r(argv[1]);
    size_t n = (size_t)r.num("W_n", 28);
    std::vector<uint8_t> b(n, 0);
    for (size_t i = 0; i < 28 && i < n; ++i) { char k[16]; snprintf(k, sizeof k, "W_b%zu", i); b[i] = (uint8_t)r.num(k, 0); }
    int rc = run(b, n);
    if (rc == 2 && n > 9) { b[9] = 0xfd; printf("retrying with an unassigned protocol number (the payload's own parser rejected it)\n"); rc = run(b, n); }
    return rc == 2 ? 0 : rc;
}
static int run(std::vector<uint8_t> b, size_t n) {
    ExactBuf in(b);
    try {
        IP p(in.p, (uint32_t)n);
        size_t ihl4 = (b[0] & 0x0f) * 4;
        printf("parsed: %zu options, header_size %u (IHL says %zu), payload %u octets\n", p.options().size(), p.header_size(), ihl4, p.inner_pdu() ? p.inner_pdu()->size() : 0);
        if (p.header_size() != ihl4) { printf("DEFECT: header of %zu octets is re-serialized with %u\n", ihl4, p.header_size()); return 1; }
        size_t tl = ((size_t)b[2] << 8) | b[3];
        if (p.inner_pdu() && tl >= ihl4) { size_t want = std::min(n - ihl4, tl - ihl4); if (p.inner_pdu()->size() != want) { printf("DEFECT: total length %zu, header %zu: payload should be %zu octets, parsed %u\n", tl, ihl4, want, p.inner_pdu()->size()); return 1; } }
        std::vector<uint8_t> y;
        try { y = p.serialize(); } catch (const std::exception& e) { printf("DEFECT: an accepted datagram cannot be serialized: %s\n", e.what()); return 1; }
        for (size_t k = 0; k < ihl4 && k < y.size(); ++k) {
            if (k == 2 || k == 3 || k == 10 || k == 11 || k == 9) continue;
            if (k >= 12 && k < 16 && b[12] == 0 && b[13] == 0 && b[14] == 0 && b[15] == 0) continue;   // 0.0.0.0 source: filled in from the outgoing interface (prepare_for_serialize)
            if (y[k] != b[k] && !(k >= 20 && y[k] == 0)) { printf("DEFECT: header octet %zu parsed as 0x%02x is serialized as 0x%02x\n", k, b[k], y[k]); return 1; }
        }
        size_t ps = p.inner_pdu() ? p.inner_pdu()->size() : 0;
        for (size_t k = 0; k < ps && ihl4 + k < y.size() && ihl4 + k < n; ++k)
            if (y[ihl4 + k] != b[ihl4 + k]) { printf("DEFECT: payload octet %zu changed from 0x%02x to 0x%02x\n", k, b[ihl4 + k], y[ihl4 + k]); return 1; }
    } catch (const malformed_packet&) { printf("input rejected (not an accepted byte string)\n"); return 2; }
    printf("ok\n"); return 0;
}
