// Native replay for the *.option_list_wire_image units (C03/C04): a layer of the unit's class gets the two witness options
// (W_code[i], W_len[i], data 0x41+...) through add_option / add_tag, is serialized and parsed back: same options, same order, same bytes.
#include <tins/tins.h>
#include "replay_util.h"
using namespace Tins;
template <class L> static int compare(const L& a, const L& b, const char* what) {
    if (a.size() != b.size()) { printf("DEFECT: %s: %zu options written, %zu read back\n", what, a.size(), b.size()); return 1; }
    typename L::const_iterator i = a.begin(), j = b.begin(); size_t k = 0;
    for (; i != a.end(); ++i, ++j, ++k) {
        if (i->option() != j->option() || i->data_size() != j->data_size() || memcmp(i->data_ptr(), j->data_ptr(), i->data_size()) != 0) {
            printf("DEFECT: %s: option %zu comes back as code %u with %zu octets (written: code %u, %zu octets)\n", what, k, (unsigned)j->option(), j->data_size(), (unsigned)i->option(), i->data_size()); return 1; }
    }
    printf("%s: %zu options read back as written\n", what, a.size());
    return 0;
}
int main(int argc, char** argv) {
    if (argc < 2) return 0;
    Replay r(argv[1]);
    std::string u = r.str("unit");
    unsigned code[2], len[2]; std::vector<uint8_t> data[2];
    for (int i = 0; i < 2; ++i) {
        char k[24]; snprintf(k, sizeof k, "W_code[%dl]", i); code[i] = (unsigned)r.num(k, 3 + i);
        snprintf(k, sizeof k, "W_len[%dl]", i); len[i] = (unsigned)r.num(k, 2 + i) % 17;
        data[i].assign(len[i], 0); for (unsigned j = 0; j < len[i]; ++j) data[i][j] = (uint8_t)(0x41 + i * 16 + j);
    }
    try {
        if (u.find("pppoe") == 0) {
            PPPoE p; p.code(9);
            for (int i = 0; i < 2; ++i) p.add_tag(PPPoE::tag((PPPoE::TagTypes)code[i], len[i], data[i].data()));
            std::vector<uint8_t> y = p.serialize(); PPPoE q(y.data(), (uint32_t)y.size());
            if (q.payload_length() != y.size() - 6) { printf("DEFECT: PPPoE payload length %u, %zu octets follow the header\n", q.payload_length(), y.size() - 6); return 1; }
            return compare(p.tags(), q.tags(), "PPPoE tags");
        }
        if (u.find("dhcpv6") == 0) {
            DHCPv6 p; p.msg_type(DHCPv6::SOLICIT);
            for (int i = 0; i < 2; ++i) p.add_option(DHCPv6::option(code[i], len[i], data[i].data()));
            std::vector<uint8_t> y = p.serialize(); DHCPv6 q(y.data(), (uint32_t)y.size());
            return compare(p.options(), q.options(), "DHCPv6 options");
        }
        if (u.find("dot11") == 0) {
            Dot11Beacon p;
            for (int i = 0; i < 2; ++i) p.add_option(Dot11::option((uint8_t)code[i], len[i], data[i].data()));
            std::vector<uint8_t> y = p.serialize(); Dot11Beacon q(y.data(), (uint32_t)y.size());
            return compare(p.options(), q.options(), "Dot11 information elements");
        }
        if (u.find("tcp") == 0) {
            TCP p(80, 1234);
            for (int i = 0; i < 2; ++i) { unsigned c = code[i] & 0xff; if (i == 0 && c == 0) c = 1; unsigned l = c <= 1 ? 0 : len[i]; p.add_option(TCP::option((TCP::OptionTypes)c, l, data[i].data())); }
            std::vector<uint8_t> y = p.serialize(); TCP q(y.data(), (uint32_t)y.size());
            if (q.data_offset() * 4u != y.size()) { printf("DEFECT: TCP data offset %u words, header is %zu octets\n", (unsigned)q.data_offset(), y.size()); return 1; }
            // the parser stops at EOL: compare up to there
            TCP::options_type a = p.options(), b = q.options();
            for (size_t k = 0; k < a.size(); ++k) if (a[k].option() == TCP::EOL) { a.resize(k); break; }
            return compare(a, b, "TCP options");
        }
    } catch (const exception_base& e) { printf("DEFECT: %s while serializing / re-parsing an API-built layer\n", e.what()); return 1; }
    printf("no native entry for unit %s\n", u.c_str());
    return 0;
}
