// Native replay for dhcpv6.class_option_data_codec: the witness list (W_n entries with W_in[i].size bytes) is set as the
// DHCPv6 user-class option, serialized, re-parsed and read back.
#include <tins/tins.h>
#include "replay_util.h"
using namespace Tins;
int main(int argc, char** argv) {
    Replay r(argv[1]);
    size_t n = (size_t)r.num("W_n", 2); if (n > 3) n = 3; if (n == 0) n = 2;
    DHCPv6::user_class_type uc;
    for (size_t i = 0; i < n; ++i) {
        size_t sz = (size_t)r.num("W_in[" + std::to_string(i) + "l].size", i + 1 == n ? 0 : 2);
        if (sz > 3) sz = 3;
        uc.data.push_back(DHCPv6::class_option_data_type(sz, (uint8_t)('a' + i)));
        printf("entry %zu: %zu bytes\n", i, sz);
    }
    DHCPv6 pkt; pkt.msg_type(DHCPv6::SOLICIT); pkt.user_class(uc);
    std::vector<uint8_t> bytes = pkt.serialize();
    try {
        DHCPv6 back(bytes.data(), (uint32_t)bytes.size());
        DHCPv6::user_class_type got = back.user_class();
        if (got.data != uc.data) { printf("DEFECT: user-class list read back differs\n"); return 1; }
    } catch (const std::exception& e) { printf("DEFECT: the user-class list the encoder produced cannot be decoded: %s\n", e.what()); return 1; }
    printf("ok\n");
    return 0;
}
