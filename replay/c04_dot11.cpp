// Native replay for dot11.add_option_bookkeeping (C04): an information element of the witness size is added to a Dot11 beacon
// through add_option(const option&) or add_option(option&&) (W_move); the frame's size must grow by exactly id + length + data
// and the serialization must have that size and carry the element.
#include <tins/tins.h>
#include "replay_util.h"
using namespace Tins;
int main(int, char** argv) {
    Replay r(argv[1]);
    size_t n = (size_t)r.num("W_size", 20) & 0xff; bool mv = r.num("W_move", 1) != 0;
    std::vector<uint8_t> data(n, 0x5a);
    Dot11Beacon b;
    uint32_t before = b.header_size();
    Dot11::option opt((Dot11::OptionTypes)221, data.begin(), data.end());
    if (mv) b.add_option(std::move(opt)); else b.add_option(opt);
    uint32_t after = b.header_size();
    printf("add_option(%s) of %zu data octets: header_size %u -> %u\n", mv ? "option&&" : "const option&", n, before, after);
    if (after != before + 2 + n) { printf("DEFECT: cached size grew by %u, wire size of the element is %zu\n", after - before, 2 + n); return 1; }
    try { std::vector<uint8_t> y = b.serialize(); if (y.size() != after) { printf("DEFECT: serialization has %zu octets\n", y.size()); return 1; } }
    catch (const std::exception& e) { printf("DEFECT: serialize threw %s\n", e.what()); return 1; }
    printf("ok\n"); return 0;
}
