// Native replay for dot11.add_option_bookkeeping (C04): an information element of the witness size is added to a Dot11 beacon
// through add_option(const option&) or add_option(option&&) (W_move); the frame's size must grow by exactly id + length + data
// and the serialization must have that size and carry the element.
#include <tins/tins.h>
#include "replay_util.h"
using namespace Tins;
int main(int, char** argv) {
    Replay r(argv[1]);
    if (r.str("unit") == "dot11.country_inverse") {
        // country(params) with the witness number of triplets, read back directly and through the wire
        size_t k = (size_t)r.num("W_n", 2); if (k < 1 || k > 4) k = 2;
        Dot11Beacon::country_params params;
        params.country = "US ";
        for (size_t i = 0; i < k; ++i) { params.first_channel.push_back((uint8_t)(1 + 4 * i)); params.number_channels.push_back((uint8_t)(4 + i)); params.max_transmit_power.push_back((uint8_t)(20 + i)); }
        Dot11Beacon b; b.country(params);
        try {
            Dot11Beacon::country_params out = b.country();
            std::vector<uint8_t> y = b.serialize(); Dot11Beacon q(y.data(), (uint32_t)y.size());
            Dot11Beacon::country_params out2 = q.country();
            if (out.first_channel != params.first_channel || out2.first_channel != params.first_channel || out2.max_transmit_power != params.max_transmit_power || out2.country != params.country) { printf("DEFECT: country() does not return the %zu triplets that were set\n", k); return 1; }
        } catch (const exception_base& e) { printf("DEFECT: country() with %zu triplets set through the API throws %s (the encoder pads the element to an even length, the decoder rejects the pad octet)\n", k, e.what()); return 1; }
        printf("country with %zu triplets: ok\n", k); return 0;
    }
    size_t n = (size_t)r.num("W_size", 20) & 0xff; bool mv = r.num("W_move", 1) != 0;
    std::vector<uint8_t> data(n, 0x5a);
    Dot11Beacon b;
    uint32_t before = b.header_size();
    Dot11::option opt((Dot11::OptionTypes)221, data.begin(), data.end());
    if (mv) b.add_option(std::move(opt)); else b.add_option(opt);
    uint32_t after = b.header_size();
    printf("add_option(%s) of %zu data octets: header_size %u -> %u\n", mv ? "option&&" : "const option&", n, before, after);
    if (after != before + 2 + n) { printf("DEFECT: cached size grew by %u, wire size of the element is %zu\n", after - before, 2 + n); return 1; }
    try { std::vector<uint8_t> y = b.serialize(); if (y.size() != after) { printf("DEFECT: serialization has %zu octets\n", y.size()); return 1; } }
    catch (const std::exception& e) { printf("DEFECT: serialize threw %s\n", e.what()); return 1; }
    printf("ok\n"); return 0;
}
