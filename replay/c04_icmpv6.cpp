// Native replay for icmpv6.typed_options_inverse (C04): typed ICMPv6 option setters, serialization, parsing, typed getters.
#include <tins/tins.h>
#include "replay_util.h"
using namespace Tins;
int main(int, char**) {
    int bad = 0;
    for (int a = 0; a < 2; ++a) for (int l = 0; l < 2; ++l) {
        ICMPv6 p(ICMPv6::ROUTER_ADVERT);
        ICMPv6::prefix_info_type v(64, a, l, 0x01020304, 0x0a0b0c0d, "2001:db8::1");
        p.prefix_info(v);
        ICMPv6::map_type m(9, 5, 1, 0x11223344, "2001:db8::2");
        p.map(m);
        std::vector<uint8_t> y = p.serialize();
        ICMPv6 q(y.data(), (uint32_t)y.size());
        ICMPv6::prefix_info_type b = q.prefix_info();
        ICMPv6::map_type mb = q.map();
        if (b.prefix_len != 64 || b.A != a || b.L != l || b.valid_lifetime != 0x01020304 || b.preferred_lifetime != 0x0a0b0c0d || b.prefix != v.prefix) { printf("DEFECT: prefix_info A=%d L=%d read back as A=%d L=%d ...\n", a, l, (int)b.A, (int)b.L); bad = 1; }
        if (mb.dist != 9 || mb.pref != 5 || mb.r != 1 || mb.valid_lifetime != 0x11223344 || mb.address != m.address) { printf("DEFECT: map option read back differently\n"); bad = 1; }
    }
    if (!bad) printf("ok\n");
    return bad;
}
