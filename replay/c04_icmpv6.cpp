// Native replay for icmpv6.typed_options_inverse (C04): typed ICMPv6 option setters, serialization, parsing, typed getters.
#include <tins/tins.h>
#include "replay_util.h"
using namespace Tins;
int main(int argc, char** argv) {
    int bad = 0;
    if (argc > 1) {
        Replay r(argv[1]);
        if (r.str("unit") == "icmpv6.encoder_size_rsa_signature") {
            // an RSA signature option (RFC 3971) of the witness signature length, followed by an MTU option: through the wire both must come back
            size_t n = (size_t)r.num("W_n", 6) % 300; if (n == 0) n = 6;
            ICMPv6 p(ICMPv6::NEIGHBOUR_ADVERT);
            ICMPv6::rsa_sign_type sig; for (int i = 0; i < 16; ++i) sig.key_hash[i] = (uint8_t)(i + 1);
            for (size_t i = 0; i < n; ++i) sig.signature.push_back((uint8_t)(0x80 + i));
            p.rsa_signature(sig);
            p.mtu(ICMPv6::mtu_type(0, 1500));
            std::vector<uint8_t> y = p.serialize();
            printf("RSA signature of %zu octets + MTU option: %zu octets serialized, option sizes:", n, y.size());
            for (ICMPv6::options_type::const_iterator it = p.options().begin(); it != p.options().end(); ++it) printf(" %zu", 2 + it->data_size());
            printf("\n");
            try {
                ICMPv6 q(y.data(), (uint32_t)y.size());
                if (q.options().size() != 2) { printf("DEFECT: %zu options read back, 2 were set (the RSA option's size is not a multiple of 8: its length octet cannot say it)\n", q.options().size()); return 1; }
                ICMPv6::mtu_type m = q.mtu();
                if (m.second != 1500) { printf("DEFECT: the MTU option behind the RSA signature reads back as %u\n", (unsigned)m.second); return 1; }
                ICMPv6::rsa_sign_type back = q.rsa_signature();
                if (back.signature.size() < n || !std::equal(sig.signature.begin(), sig.signature.end(), back.signature.begin())) { printf("DEFECT: signature differs\n"); return 1; }
            } catch (const exception_base& e) { printf("DEFECT: re-parsing the serialization throws %s\n", e.what()); return 1; }
            printf("ok\n"); return 0;
        }
    }
    for (int a = 0; a < 2; ++a) for (int l = 0; l < 2; ++l) {
        ICMPv6 p(ICMPv6::ROUTER_ADVERT);
        ICMPv6::prefix_info_type v(64, a, l, 0x01020304, 0x0a0b0c0d, "2001:db8::1");
        p.prefix_info(v);
        ICMPv6::map_type m(9, 5, 1, 0x11223344, "2001:db8::2");
        p.map(m);
        std::vector<uint8_t> y = p.serialize();
        ICMPv6 q(y.data(), (uint32_t)y.size());
        ICMPv6::prefix_info_type b = q.prefix_info();
        ICMPv6::map_type mb = q.map();
        if (b.prefix_len != 64 || b.A != a || b.L != l || b.valid_lifetime != 0x01020304 || b.preferred_lifetime != 0x0a0b0c0d || b.prefix != v.prefix) { printf("DEFECT: prefix_info A=%d L=%d read back as A=%d L=%d ...\n", a, l, (int)b.A, (int)b.L); bad = 1; }
        if (mb.dist != 9 || mb.pref != 5 || mb.r != 1 || mb.valid_lifetime != 0x11223344 || mb.address != m.address) { printf("DEFECT: map option read back differently\n"); bad = 1; }
    }
    if (!bad) printf("ok\n");
    return bad;
}
