// Native replay for ipv6.ext_header_length_octet: an extension header with the witness data size (default 7, i.e. 7 mod 8)
// is added through the API, the packet serialized and re-parsed: the same headers and payload must come back.
#include <tins/tins.h>
#include "replay_util.h"
using namespace Tins;
int main(int argc, char** argv) {
    Replay r(argv[1]);
    size_t dsz = 7;
    IPv6 ip("::1", "::2");
    std::vector<uint8_t> data(dsz, 0x5a);
    ip.add_header(IPv6::ext_header(IPv6::DESTINATION_OPTIONS, data.begin(), data.end()));
    IPv6 pkt = ip / UDP(53, 1000) / RawPDU("payload!");
    std::vector<uint8_t> bytes = pkt.serialize();
    printf("extension header with %zu data bytes: Hdr Ext Len octet on the wire = %u, header occupies %u octets\n", dsz, (unsigned)bytes[41], (unsigned)(pkt.header_size() - 40));
    try {
        IPv6 back(bytes.data(), (uint32_t)bytes.size());
        const UDP* udp = back.find_pdu<UDP>();
        if (!udp || udp->dport() != 53) { printf("DEFECT: the re-parsed packet does not have the UDP layer that was set (the length octet is one unit too small)\n"); return 1; }
    } catch (const std::exception& e) { printf("DEFECT: re-parsing threw %s\n", e.what()); return 1; }
    printf("ok\n"); return 0;
}
