// Native replay for tcp.typed_options_inverse (C04): the witness values go through the typed setters, the segment is serialized
// and parsed back, and the typed getters must return the same values.
#include <tins/tins.h>
#include "replay_util.h"
using namespace Tins;
int main(int, char** argv) {
    Replay r(argv[1]);
    uint32_t v = (uint32_t)r.num("W_v", 0x1234), rp = (uint32_t)r.num("W_r", 0x9abcdef0u);
    int bad = 0;
    TCP t(80, 1025);
    t.mss((uint16_t)v); t.winscale((uint8_t)v); t.sack_permitted(); t.timestamp(v, rp); t.altchecksum((TCP::AltChecksums)(v & 0xff));
    std::vector<uint8_t> y = t.serialize();
    TCP q(y.data(), (uint32_t)y.size());
    if (q.mss() != (uint16_t)v) { printf("DEFECT: mss %u -> %u\n", (uint16_t)v, q.mss()); bad = 1; }
    if (q.winscale() != (uint8_t)v) { printf("DEFECT: winscale\n"); bad = 1; }
    if (!q.has_sack_permitted()) { printf("DEFECT: sack_permitted lost\n"); bad = 1; }
    if (q.timestamp() != std::make_pair(v, rp)) { printf("DEFECT: timestamp (%u,%u) -> (%u,%u)\n", v, rp, q.timestamp().first, q.timestamp().second); bad = 1; }
    if ((uint8_t)q.altchecksum() != (uint8_t)v) { printf("DEFECT: altchecksum\n"); bad = 1; }
    if (!bad) printf("ok\n");
    return bad;
}
