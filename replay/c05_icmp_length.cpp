// Native replay for icmp.rfc4884_length (property C05): an ICMP error message with an inner datagram, with or without an
// extension structure; the RFC 4884 length octet of the serialization counts the (padded) original datagram in 32-bit words.
#include <tins/tins.h>
#include "replay_util.h"
using namespace Tins;
int main(int argc, char** argv) {
    if (argc < 2) return 0;
    Replay r(argv[1]);
    uint8_t type = (uint8_t)r.num("W_type", 3), len0 = (uint8_t)r.num("W_len0", 1);
    uint32_t ext = (uint32_t)r.num("W_ext", 0), inner = (uint32_t)r.num("W_inner", 20);
    if (r.str("unit").find("icmpv6") != std::string::npos) {
        if (inner > 2040) return 0;
        if (type != ICMPv6::DEST_UNREACHABLE && type != ICMPv6::TIME_EXCEEDED) { printf("not an RFC 4884 type: nothing to replay\n"); return 0; }
        ICMPv6 icmp((ICMPv6::Types)type);
        if (inner) icmp /= RawPDU(std::vector<uint8_t>(inner, 0x41));
        icmp.use_length_field(len0 != 0);
        if (ext) {
            size_t payload = ext >= 8 ? ext - 8 : 0;
            ICMPExtension e(1, 1); e.payload(ICMPExtension::payload_type(payload, 0x42));
            icmp.extensions().add_extension(e);
        }
        std::vector<uint8_t> y = icmp.serialize();
        uint32_t padded = (inner + 7u) & ~7u;
        unsigned len1 = y[4];
        printf("ICMPv6 type %u inner %u ext %u use_length %d: length octet %u (x8 = %u), padded datagram %u, serialization %zu\n", type, inner, ext, len0 != 0, len1, len1 * 8, padded, y.size());
        if (len0 == 0 && padded <= 128) { if (len1 != 0) { printf("DEFECT: unused length octet not zero\n"); return 1; } return 0; }
        if (ext) {
            uint32_t want = inner ? (padded > 128 ? padded : 128) : 0;
            if (len1 * 8 != want) { printf("DEFECT: the extension structure is %u octets behind the header but the length octet says %u\n", want, len1 * 8); return 1; }
        }
        else if (len1 * 8 != padded) { printf("DEFECT: no extension structure: the length octet must count the padded datagram (%u octets present), it says %u\n", padded, len1 * 8); return 1; }
        printf("ok\n"); return 0;
    }
    if (inner > 1020) return 0;
    ICMP icmp((ICMP::Flags)type);
    if (type != ICMP::DEST_UNREACHABLE && type != ICMP::TIME_EXCEEDED && type != ICMP::PARAM_PROBLEM) { printf("not an RFC 4884 type: nothing to replay\n"); return 0; }
    if (inner) icmp /= RawPDU(std::vector<uint8_t>(inner, 0x41));
    icmp.use_length_field(len0 != 0);
    if (ext) {
        size_t payload = ext >= 8 ? ext - 8 : 0;
        ICMPExtension e(1, 1); e.payload(ICMPExtension::payload_type(payload, 0x42));
        icmp.extensions().add_extension(e);
    }
    std::vector<uint8_t> y = icmp.serialize();
    uint32_t padded = (inner + 3u) & ~3u, hs = 8;
    unsigned len1 = y[5];
    printf("type %u inner %u ext %u use_length %d: length octet %u (x4 = %u), padded datagram %u, serialization %zu\n", type, inner, ext, len0 != 0, len1, len1 * 4, padded, y.size());
    if (len0 == 0 && padded <= 128) { if (len1 != 0) { printf("DEFECT: unused length octet not zero\n"); return 1; } return 0; }
    if (ext) {
        uint32_t want = inner ? (padded > 128 ? padded : 128) : 0;
        if (len1 * 4 != want) { printf("DEFECT: the extension structure is %u octets behind the header but the length octet says %u\n", want, len1 * 4); return 1; }
    }
    else if (len1 * 4 != padded) { printf("DEFECT: no extension structure: the length octet must count the padded datagram (%u), it says %u\n", padded, len1 * 4); return 1; }
    printf("ok\n"); return 0;
}
