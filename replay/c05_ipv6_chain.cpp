// Native replay for ipv6.next_header_chain (C05): an IPv6 packet with the witness's extension headers (W_n of them, types
// W_t0..W_t3; types that libtins would not accept as extension headers when re-parsing are still fine for a wire walk) over a
// UDP or raw payload is serialized and the next-header chain is walked on the wire (RFC 8200 section 4).
#include <tins/tins.h>
#include "replay_util.h"
using namespace Tins;
int main(int, char** argv) {
    Replay r(argv[1]);
    size_t n = (size_t)r.num("W_n", 3); if (n > 4) n = 4;
    uint8_t t[4] = { (uint8_t)r.num("W_t0", 0), (uint8_t)r.num("W_t1", 43), (uint8_t)r.num("W_t2", 60), (uint8_t)r.num("W_t3", 60) };
    IPv6 ip("::1", "::2");
    for (size_t i = 0; i < n; ++i) { uint8_t data[6] = {1, 4, 0, 0, 0, 0}; ip.add_header(IPv6::ext_header((IPv6::ExtensionHeader)t[i], data, data + 6)); }
    IPv6 pkt = ip / UDP(53, 1000) / RawPDU("x");
    std::vector<uint8_t> y = pkt.serialize();
    // walk: fixed header next_header at offset 6; each extension header: [next, len8, ...] of (len8+1)*8 octets
    uint8_t next = y[6]; size_t off = 40;
    for (size_t i = 0; i < n; ++i) {
        if (next != t[i]) { printf("DEFECT: header %zu is announced as type %u, it was added as type %u\n", i, next, t[i]); return 1; }
        if (off + 2 > y.size()) { printf("DEFECT: chain runs off the packet\n"); return 1; }
        next = y[off]; off += ((size_t)y[off + 1] + 1) * 8;
    }
    if (next != 17) { printf("DEFECT: the last header announces protocol %u, the payload is UDP (17)\n", next); return 1; }
    printf("ok\n"); return 0;
}
