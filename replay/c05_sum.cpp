// Native replay for checksum.sum_range_reference: the witness (n, W_buf[0..15]) is fed to the real Utils::sum_range and
// compared with an independent RFC 1071 computation.
#include <tins/tins.h>
#include <tins/utils/checksum_utils.h>
#include "replay_util.h"
static uint16_t rfc1071(const uint8_t* p, unsigned n) {
    uint32_t sum = 0;
    for (unsigned i = 0; i + 1 < n; i += 2) sum += ((uint32_t)p[i] << 8) | p[i + 1];
    if (n & 1) sum += (uint32_t)p[n - 1] << 8;
    while (sum >> 16) sum = (sum & 0xffff) + (sum >> 16);
    return (uint16_t)sum;
}
int main(int argc, char** argv) {
    Replay r(argv[1]);
    size_t n = (size_t)r.num("n", 0);
    if (n > 16) n = 16;
    std::vector<uint8_t> v = r.bytes("W_buf", n, 0);
    ExactBuf b(v);
    uint16_t got = Tins::Utils::sum_range(b.p, b.p + n);
    uint16_t want = rfc1071(b.p, (unsigned)n);
    uint16_t swapped = (uint16_t)((want << 8) | (want >> 8));
    printf("n=%zu bytes:", n); for (size_t i = 0; i < n; ++i) printf(" %02x", b.p[i]);
    printf("\nUtils::sum_range=0x%04x  RFC 1071 reference (byte-swapped)=0x%04x\n", got, swapped);
    return got == swapped ? 0 : 1;
}
