// Native replay for tcp_stream.safe_insert (property C06): the legacy TCPStreamFollower is given a hole of 10 octets, then two
// segments that start at the same sequence number with the witness lengths (W_old stored first, then W_new), then the hole:
// every octet that arrived must be delivered.
#include <tins/tcp_stream.h>
#include <tins/ethernetII.h>
#include <tins/ip.h>
#include <tins/tcp.h>
#include <tins/rawpdu.h>
#include "replay_util.h"
using namespace Tins;
static std::string delivered;
static void on_data(TCPStream& st) { delivered.assign(st.client_payload().begin(), st.client_payload().end()); }
static EthernetII seg(const std::string& s, uint32_t isn, uint32_t off, uint32_t len) {
    TCP tcp(80, 4000); tcp.flags(TCP::ACK | TCP::PSH); tcp.seq(isn + 1 + off);
    return EthernetII() / IP("10.0.0.2", "10.0.0.1") / tcp / RawPDU(s.begin() + off, s.begin() + off + len);
}
int main(int argc, char** argv) {
    if (argc < 2) return 0;
    Replay r(argv[1]);
    uint32_t a = (uint32_t)(r.num("W_old", 20) % 40) + 1, b = (uint32_t)(r.num("W_new", 10) % 40) + 1;
    if (!r.num("W_present", 1)) a = b;
    if (a == b) { a = 20; b = 10; }
    int bad = 0;
    const uint32_t isns[] = { 1000u, 0xfffffff0u };
    for (uint32_t isn : isns) {
        std::string s; for (uint32_t i = 0; i < 10 + std::max(a, b); ++i) s += (char)('A' + i % 26);
        std::vector<EthernetII> pkts;
        TCP syn(80, 4000); syn.flags(TCP::SYN); syn.seq(isn); pkts.push_back(EthernetII() / IP("10.0.0.2", "10.0.0.1") / syn);
        TCP sa(4000, 80); sa.flags(TCP::SYN | TCP::ACK); sa.seq(7000); sa.ack_seq(isn + 1); pkts.push_back(EthernetII() / IP("10.0.0.1", "10.0.0.2") / sa);
        pkts.push_back(seg(s, isn, 10, a)); pkts.push_back(seg(s, isn, 10, b)); pkts.push_back(seg(s, isn, 0, 10));
        delivered.clear();
        TCPStreamFollower f; f.follow_streams(pkts.begin(), pkts.end(), on_data);
        printf("isn %u: segments [10,%u) then [10,%u) then [0,10): %zu of %zu octets delivered\n", isn, 10 + a, 10 + b, delivered.size(), s.size());
        if (delivered != s) { printf("DEFECT: every octet arrived but the delivered data is not the stream (the shorter of two segments with the same start was kept)\n"); ++bad; }
    }
    return bad ? 1 : 0;
}
