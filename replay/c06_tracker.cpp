// Native replay for data_tracker (C06): the defect class the bounded model guards is "bytes delivered != bytes sent".  A byte
// stream is cut into segments that are delivered out of order, duplicated and overlapping around the witness sequence number
// (W_seq, also across the 2^32 wrap); the tracker's payload must equal the stream prefix, under ASan.
#include <tins/tins.h>
#include <tins/tcp_ip/data_tracker.h>
#include "replay_util.h"
using namespace Tins; using Tins::TCPIP::DataTracker;
int main(int, char** argv) {
    Replay r(argv[1]);
    uint32_t base = (uint32_t)r.num("W_seq", 0xfffffff0u);
    std::vector<uint8_t> stream(96);
    for (size_t i = 0; i < stream.size(); ++i) stream[i] = (uint8_t)(i * 7 + 3);
    struct Seg { size_t off, len; };
    static const Seg orders[][6] = {
        { {16,16}, {0,16}, {8,24}, {48,16}, {32,16}, {64,32} },
        { {32,16}, {16,32}, {0,8}, {4,20}, {40,30}, {70,26} },
        { {0,96}, {10,10}, {90,6}, {0,1}, {95,1}, {50,40} },
        { {64,32}, {32,32}, {0,32}, {0,32}, {32,32}, {64,32} },
    };
    for (auto& order : orders) {
        DataTracker t(base);
        for (auto& s : order) {
            DataTracker::payload_type p(stream.begin() + s.off, stream.begin() + s.off + s.len);
            t.process_payload(base + (uint32_t)s.off, std::move(p));
        }
        const DataTracker::payload_type& got = t.payload();
        if (got.size() > stream.size() || !std::equal(got.begin(), got.end(), stream.begin())) { printf("DEFECT: delivered bytes are not a prefix of the sent stream (%zu delivered)\n", got.size()); return 1; }
        if (got.size() != stream.size()) { printf("DEFECT: %zu of %zu octets delivered although every octet was received\n", got.size(), stream.size()); return 1; }
        if (t.sequence_number() != base + (uint32_t)stream.size()) { printf("DEFECT: next expected sequence number is off\n"); return 1; }
        if (t.total_buffered_bytes() != 0) { printf("DEFECT: %u octets still buffered\n", t.total_buffered_bytes()); return 1; }
    }
    printf("ok\n"); return 0;
}
