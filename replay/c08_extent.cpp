// Native replay for ip.ctor_child_extent. A failed postcondition of a modular proof is not an input (the contract's buffer is an
// is_fresh object without trace content), so this driver searches a bounded family of IPv4 buffers on the REAL IP::IP(buffer):
// header lengths 5..7 words (NOOP options), total-length field = 0, < header, = header + p for payloads p of 1..40 octets, with
// 0..30 trailing octets behind the advertised datagram (link-layer padding), fragment word = unfragmented / MF set / offset != 0,
// protocol 253 (no class: the inner layer is a RawPDU over the extent). For each the size of the inner layer must be
// min(octets available, total length - header length), or all available octets when the total-length field is 0.
// Exit 0 = none found (the VIOLATION line then says no-failing-input-found).
#include <tins/tins.h>
#include "replay_util.h"
using namespace Tins;
int main(int argc, char** argv) {
    Replay r(argv[1]);
    unsigned long tried = 0;
    for (unsigned ihl = 5; ihl <= 7; ++ihl)
    for (unsigned pay = 1; pay <= 40; pay += 3)
    for (unsigned trail = 0; trail <= 30; trail += 5)
    for (int totmode = 0; totmode < 3; ++totmode)
    for (int frag = 0; frag < 3; ++frag) {
        const unsigned hl = ihl * 4, n = hl + pay + trail;
        std::vector<uint8_t> v(n);
        for (unsigned i = 0; i < n; ++i) v[i] = (uint8_t)(i * 13 + 1);
        v[0] = (uint8_t)(0x40 | ihl); v[1] = 0;
        const unsigned tot = totmode == 0 ? hl + pay : totmode == 1 ? 0 : hl + pay + trail + 9;   /* exact / zero (TSO) / longer than the buffer */
        v[2] = (uint8_t)(tot >> 8); v[3] = (uint8_t)tot;
        v[4] = 0; v[5] = 7;
        const unsigned fw = frag == 0 ? 0 : frag == 1 ? 0x2000 : 0x0003;                        /* unfragmented / MF / offset 3 */
        v[6] = (uint8_t)(fw >> 8); v[7] = (uint8_t)fw;
        v[8] = 64; v[9] = 253; v[10] = v[11] = 0;
        v[12] = 10; v[13] = 0; v[14] = 0; v[15] = 1; v[16] = 10; v[17] = 0; v[18] = 0; v[19] = 2;
        for (unsigned i = 20; i < hl; ++i) v[i] = 1;                                            /* NOOP options */
        ExactBuf b(v);
        ++tried;
        try {
            IP ip(b.p, n);
            const unsigned avail = n - hl;
            const unsigned expected = tot == 0 ? avail : (tot - hl < avail ? tot - hl : avail);
            const unsigned got = ip.inner_pdu() ? ip.inner_pdu()->size() : 0;
            if (got != expected) {
                printf("DEFECT: IP(buffer) of %u octets (header %u, total length field %u, fragment word 0x%04x): inner layer holds %u octets, the datagram's payload is %u\n", n, hl, tot, fw, got, expected);
                return 1;
            }
        }
        catch (const exception_base&) { printf("DEFECT: a well-formed header was rejected (n=%u hl=%u tot=%u)\n", n, hl, tot); return 1; }
    }
    printf("%lu buffers: the inner layer always covers exactly the advertised payload\n", tried);
    return 0;
}
