// Native replay for ip_reassembler.ipv4_stream_step: the witness fragment (W_off, W_size, W_mf) cannot carry the arbitrary
// prior stream state of the modular proof, so the driver exercises the real IPv4Reassembler with the fragment schedules
// the obligations speak about: in-order, reversed, with duplicates of every fragment (incl. the highest-offset one) and
// with the last fragment first; the datagram must be produced exactly once and only when complete.
#include <tins/tins.h>
#include <tins/ip_reassembler.h>
#include "replay_util.h"
using namespace Tins;
static int g_proto = 17;    // protocol number of the datagram (witness W_proto): also numbers libtins has no class for
static std::vector<IP> fragments(size_t payload_len, size_t chunk) {
    std::vector<uint8_t> payload(payload_len); for (size_t i = 0; i < payload_len; ++i) payload[i] = (uint8_t)(i * 7);
    std::vector<IP> out;
    for (size_t off = 0; off < payload_len; off += chunk) {
        size_t n = std::min(chunk, payload_len - off);
        IP ip("10.0.0.2", "10.0.0.1"); ip.id(77);
        ip.fragment_offset(off / 8); ip.flags(off + n < payload_len ? IP::MORE_FRAGMENTS : (IP::Flags)0);
        ip /= RawPDU(&payload[off], (uint32_t)n);
        ip.protocol((uint8_t)g_proto);   // after the payload is attached: operator/= would set it from the child
        out.push_back(ip);
    }
    return out;
}
static int run(const std::vector<int>& order, const char* what) {
    std::vector<IP> fr = fragments(64, 16);    // 4 fragments
    IPv4Reassembler re; int reassembled = 0;
    std::vector<bool> seen(fr.size(), false); size_t distinct = 0;
    for (size_t k = 0; k < order.size(); ++k) {
        IP pkt = fr[order[k]];
        IPv4Reassembler::PacketStatus st = re.process(pkt);
        if (!seen[order[k]]) { seen[order[k]] = true; ++distinct; }
        bool should = distinct == fr.size() && reassembled == 0;
        if (st == IPv4Reassembler::REASSEMBLED) { ++reassembled; if (!should) { printf("%s: DEFECT: REASSEMBLED from an incomplete set at step %zu\n", what, k); return 1; } if (pkt.inner_pdu()->size() != 64) { printf("%s: DEFECT: wrong payload size\n", what); return 1; } }
        else if (should) { printf("%s: DEFECT: expected REASSEMBLED at step %zu, got %d\n", what, k, (int)st); return 1; }
    }
    printf("%s: ok\n", what);
    return 0;
}
int main(int argc, char** argv) {
    Replay r(argv[1]);
    int bad = 0;
    if (r.has("W_proto")) g_proto = (int)r.num("W_proto") & 0xff;
    if (g_proto == 1 || g_proto == 4 || g_proto == 6 || g_proto == 41 || g_proto == 50 || g_proto == 51 || g_proto == 58) g_proto = 17;   // the counting pattern is not a valid header of those
    printf("protocol %d\n", g_proto);
    int a[] = {0,1,2,3}; bad += run(std::vector<int>(a, a+4), "in order");
    int b[] = {3,2,1,0}; bad += run(std::vector<int>(b, b+4), "reversed");
    int c[] = {0,1,1,2,3}; bad += run(std::vector<int>(c, c+5), "duplicate of the highest fragment so far");
    int d[] = {0,1,2,2,3}; bad += run(std::vector<int>(d, d+5), "duplicate of the highest fragment so far (2)");
    int e[] = {3,0,0,2,1}; bad += run(std::vector<int>(e, e+5), "last fragment first, duplicate of the first");
    int f[] = {0,0,1,2,3}; bad += run(std::vector<int>(f, f+5), "duplicate of the only fragment");
    return bad ? 1 : 0;
}
