// Native replay for crypto.ccmp_decrypt_unicast: a protected-frame body of the witness length (default: every length
// 0..15) is handed to the real SessionKeys::decrypt_unicast (CCMP) under ASan.
#include <tins/tins.h>
#include <tins/crypto.h>
#include "replay_util.h"
using namespace Tins;
int main(int argc, char** argv) {
    Replay r(argv[1]);
    Crypto::WPA2::SessionKeys::ptk_type ptk(80, 0x5a);
    Crypto::WPA2::SessionKeys keys(ptk, true);
    long want = r.has("raw->payload_.size") ? (long)r.num("raw->payload_.size") : -1;
    for (size_t n = 0; n < 16; ++n) {
        if (want >= 0 && want < 16 && (size_t)want != n) continue;
        std::vector<uint8_t> body(n, 0xa5);
        Dot11QoSData d; d.wep(1);
        ExactBuf b(body);
        RawPDU raw(b.p, (uint32_t)n);
        // RawPDU copies into its own vector: shrink to an exact heap block is what std::vector gives for this size
        SNAP* s = keys.decrypt_unicast(d, raw);
        printf("body of %zu bytes: %s\n", n, s ? "reported decrypted" : "not decrypted");
        if (s) { delete s; return 1; }
    }
    return 0;
}
