// Native replay for handshake_capturer.do_insert (property C09): four-way handshakes with one retransmitted message are fed to the
// real RSNHandshakeCapturer (messages are classified by their key-info bits only; no key material is needed): each must complete.
#include <tins/tins.h>
#include "replay_util.h"
using namespace Tins;
static Dot11Data msg(int m) {
    RSNEAPOL e; e.key_t(1);
    if (m == 1) { e.key_ack(1); }
    if (m == 2) { e.key_mic(1); }
    if (m == 3) { e.key_ack(1); e.key_mic(1); e.install(1); }
    if (m == 4) { e.key_mic(1); e.secure(1); }
    e.replay_counter(m);
    bool from_ap = (m == 1 || m == 3);
    Dot11Data d(from_ap ? "00:11:22:33:44:55" : "66:77:88:99:aa:bb", from_ap ? "66:77:88:99:aa:bb" : "00:11:22:33:44:55");
    if (from_ap) d.from_ds(1); else d.to_ds(1);
    d.addr3("66:77:88:99:aa:bb");
    return d / SNAP() / e;
}
int main(int argc, char** argv) {
    if (argc < 2) return 0;
    int bad = 0;
    for (int dup = 0; dup <= 4; ++dup) {
        RSNHandshakeCapturer cap; bool done = false; std::string seq;
        for (int m = 1; m <= 4; ++m) {
            int reps = (m == dup) ? 2 : 1;
            for (int k = 0; k < reps; ++k) { Dot11Data d = msg(m); seq += (char)('0' + m); if (cap.process_packet(d)) done = true; }
        }
        printf("messages %s: handshake %s (%zu collected)\n", seq.c_str(), done ? "completed" : "NOT completed", cap.handshakes().size());
        if (!done || cap.handshakes().size() != 1 || cap.handshakes()[0].handshake().size() != 4) { printf("DEFECT: a valid ordering of the four-way handshake with a retransmitted message %d was not captured\n", dup); ++bad; }
    }
    return bad ? 1 : 0;
}
