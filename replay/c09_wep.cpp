// Native replay for crypto.wep_decrypt (C09): WEP-protected 802.11 data frames with every payload length 0..24 (around the
// IV + key id + ICV = 8 octet minimum) are handed to WEPDecrypter under ASan; none may be reported as decrypted unless its ICV
// verifies, and nothing outside the payload may be touched.
#include <tins/tins.h>
#include "replay_util.h"
using namespace Tins;
int main(int, char**) {
    Crypto::WEPDecrypter dec;
    dec.add_password("00:01:02:03:04:05", "passw");
    dec.add_password("00:01:02:03:04:06", "a much longer password than the first one");
    for (size_t n = 0; n <= 24; ++n) {
        std::vector<uint8_t> payload(n);
        for (size_t i = 0; i < n; ++i) payload[i] = (uint8_t)(i * 37 + 11);
        Dot11Data d; d.wep(1); d.addr3("00:01:02:03:04:05"); d.addr1("00:01:02:03:04:05"); d.addr2("00:01:02:03:04:05");
        d.inner_pdu(RawPDU(payload.begin(), payload.end()));
        bool ok = dec.decrypt(d);
        if (ok && n <= 8) { printf("DEFECT: a %zu-octet payload (no room for IV + ICV + data) was reported as decrypted\n", n); return 1; }
    }
    printf("ok\n"); return 0;
}
