// Native replay for the DNS editor units (C10). The counterexample of dns.update_dname is an encoded name; the property
// violation it stands for is exhibited on the real library with the message family the obligation describes:
//  (1) "returns the first octet after the name": libtins' own (uncompressed) names end in a zero octet -> two authority
//      records followed by add_answer() make update_records walk from the wrong offset (ASan: out-of-bounds);
//  (2) "pointer shifted iff its target lies at or after the splice": a pointer whose target lies in the 11 octets before
//      the splice must keep designating the same name after add_answer().
#include <tins/tins.h>
#include "replay_util.h"
using namespace Tins;
int main(int argc, char** argv) {
    Replay r(argv[1]);
    std::string ob = r.str("obligation");
    int bad = 0;
    if (r.str("unit") == "dns.convert_records_sources") {
        // a response built through the API with one record of each of the witness types (W_type[i]; default A then AAAA then TXT),
        // serialized and parsed: answers() must give back each record's own data
        struct { uint16_t t; const char* data; } known[] = { {DNS::A, "1.2.3.4"}, {DNS::AAAA, "2001:db8::1"}, {DNS::NS, "ns.example.com"}, {DNS::CNAME, "c.example.com"},
            {DNS::PTR, "p.example.com"}, {DNS::MX, "mx.example.com"}, {DNS::TXT, "\x05hello"}, {DNS::DNAM, "d.example.com"} };
        uint16_t dflt[3] = { DNS::A, DNS::AAAA, DNS::TXT };
        DNS d; d.type(DNS::RESPONSE);
        std::vector<std::string> want;
        for (int i = 0; i < 3; ++i) {
            char k[24]; snprintf(k, sizeof k, "W_type[%dl]", i);
            uint16_t t = r.has(k) ? (uint16_t)r.num(k) : dflt[i];
            const char* data = 0; for (auto& e : known) if (e.t == t) data = e.data;
            if (!data) { t = dflt[i]; for (auto& e : known) if (e.t == t) data = e.data; }
            char nm[32]; snprintf(nm, sizeof nm, "r%d.example.com", i);
            d.add_answer(DNS::resource(nm, data, t, DNS::INTERNET, 60 + i, t == DNS::MX ? 10 : 0));
            want.push_back(data);
        }
        std::vector<uint8_t> y = d.serialize();
        DNS::resources_type got;
        try { DNS q(y.data(), (uint32_t)y.size()); got = q.answers(); }
        catch (const exception_base& e) { printf("DEFECT: the serialization of the API-built records does not parse back: %s (a record type whose data the parser reads as a domain name but the editor stores as text)\n", e.what()); return 1; }
        if (got.size() != want.size()) { printf("DEFECT: %zu records parsed, %zu written\n", got.size(), want.size()); return 1; }
        size_t i = 0;
        for (const auto& a : got) {
            printf("record %zu type %u data \"%s\"\n", i, (unsigned)a.query_type(), a.data().c_str());
            if (a.data() != want[i]) { printf("DEFECT: record %zu comes back with data \"%s\" instead of \"%s\" (left over from an earlier record)\n", i, a.data().c_str(), want[i].c_str()); ++bad; }
            ++i;
        }
        return bad ? 1 : 0;
    }
    if (r.str("unit") == "dns.encode_name_wire_form") {
        // the witness name (W_s, W_n) in a query and an answer: the message must serialize to something libtins parses back to the same records
        size_t n = (size_t)r.num("W_n", 12);
        std::vector<uint8_t> b = r.bytes("W_s", n, 'a');
        std::string name(b.begin(), b.end());
        for (size_t i = 0; i < name.size(); ++i) if ((unsigned char)name[i] < 0x21 || (unsigned char)name[i] > 0x7e) name[i] = 'x';
        if (!r.has("W_s[0l]") && !r.has("W_s[0]")) name = "example.com.";
        DNS d; d.add_query(DNS::query(name, DNS::A, DNS::INTERNET)); d.add_answer(DNS::resource(name, "1.2.3.4", DNS::A, DNS::INTERNET, 60));
        std::vector<uint8_t> y = d.serialize();
        std::string want = name; if (!want.empty() && want[want.size() - 1] == '.') want.erase(want.size() - 1);
        try {
            DNS q(y.data(), (uint32_t)y.size());
            DNS::queries_type qs = q.queries(); DNS::resources_type as = q.answers();
            if (qs.size() != 1 || as.size() != 1) { printf("DEFECT: \"%s\": %zu queries, %zu answers read back\n", name.c_str(), qs.size(), as.size()); return 1; }
            printf("\"%s\": query \"%s\" type %d, answer \"%s\" -> %s\n", name.c_str(), qs.front().dname().c_str(), (int)qs.front().query_type(), as.front().dname().c_str(), as.front().data().c_str());
            if (qs.front().dname() != want || qs.front().query_type() != DNS::A || as.front().dname() != want || as.front().data() != "1.2.3.4") { printf("DEFECT: the records do not come back as inserted\n"); return 1; }
        } catch (const exception_base& e) { printf("DEFECT: \"%s\": the serialization of the API-built message does not parse: %s\n", name.c_str(), e.what()); return 1; }
        return 0;
    }
    if (r.str("unit") == "dns.name_fields_agreement") {
        // (1) a parsed response whose ADDITIONAL section holds an SOA record with a compressed primary-server name that points into the
        //     AUTHORITY section; add_answer() shifts both sections: the SOA must keep naming ns1.example.org
        // (2) a DNAME record built through the API must come back through the wire
        std::vector<uint8_t> m = {0x12,0x34, 0x81,0x80, 0,1, 0,0, 0,1, 0,1};
        auto name = [&](const char* s){ const char* p = s; while (*p) { const char* d = strchr(p, '.'); size_t n = d ? (size_t)(d - p) : strlen(p); m.push_back((uint8_t)n); m.insert(m.end(), p, p + n); p += n + (d ? 1 : 0); } m.push_back(0); };
        name("example.com"); m.insert(m.end(), {0,1, 0,1});
        size_t auth = m.size(); name("ns1.example.org"); m.insert(m.end(), {0,1, 0,1, 0,0,0,60, 0,4, 1,2,3,4});
        m.insert(m.end(), {0xc0, 12}); m.insert(m.end(), {0,6, 0,1, 0,0,0,60});
        size_t rdlen_at = m.size(); m.insert(m.end(), {0,0}); size_t rd = m.size();
        m.insert(m.end(), {0xc0, (uint8_t)auth}); name("admin.example.com");
        for (int i = 0; i < 5; ++i) m.insert(m.end(), {0,0,0,(uint8_t)(i + 1)});
        m[rdlen_at + 1] = (uint8_t)(m.size() - rd);
        try {
            DNS d(m.data(), (uint32_t)m.size());
            std::string before = d.additional().front().data();
            d.add_answer(DNS::resource("zz.example.net", "5.6.7.8", DNS::A, DNS::INTERNET, 9));
            std::vector<uint8_t> y = d.serialize(); DNS q(y.data(), (uint32_t)y.size());
            std::string after = q.additional().front().data();
            auto show = [](const std::string& s){ std::string o; for (unsigned char c : s) o += (c >= 32 && c < 127) ? (char)c : '.'; return o; };
            printf("SOA data before the insertion: %s\nSOA data after add_answer:     %s\n", show(before).c_str(), show(after).c_str());
            if (before != after) { printf("DEFECT: the compressed primary-server name of the SOA record designates another name after the insertion (update_records does not relocate the names inside SOA data)\n"); ++bad; }
        } catch (const exception_base& e) { printf("DEFECT: SOA scenario throws %s\n", e.what()); ++bad; }
        try {
            DNS d; d.type(DNS::RESPONSE); d.add_answer(DNS::resource("old.example.com", "new.example.com", DNS::DNAM, DNS::INTERNET, 60));
            std::vector<uint8_t> y = d.serialize(); DNS q(y.data(), (uint32_t)y.size());
            std::string got = q.answers().front().data();
            printf("DNAME target read back: %s\n", got.c_str());
            if (got != "new.example.com") { printf("DEFECT: the DNAME target does not come back\n"); ++bad; }
        } catch (const exception_base& e) { printf("DEFECT: a DNAME record built through the API does not parse back: %s (the parser reads its data as a domain name, the editor stored text)\n", e.what()); ++bad; }
        return bad ? 1 : 0;
    }
    if (r.str("unit") == "dns.update_records_bounds") {
        // the witness record area (W_b0.., as many octets as the witness names, at most 18) as the authority section of a message
        // with no question: DNS::DNS accepts it (same validator as the unit), then add_answer walks it. Run under ASan.
        size_t n = 0; while (n < 18) { char k[16]; snprintf(k, sizeof k, "W_b%zu", n); if (!r.has(k)) break; ++n; }
        if (n == 0) { static const uint8_t dflt[] = {1,'b',0, 0,2, 0,1, 0,0,0,60, 0,1, 0x3f}; n = sizeof dflt; }
        std::vector<uint8_t> msg = {0x12,0x34, 0x81,0x80, 0,0, 0,0, 0,(uint8_t)r.num("W_count", 1), 0,0};
        for (size_t i = 0; i < n; ++i) { char k[16]; snprintf(k, sizeof k, "W_b%zu", i); static const uint8_t dflt[] = {1,'b',0, 0,2, 0,1, 0,0,0,60, 0,1, 0x3f}; msg.push_back(r.has(k) ? (uint8_t)r.num(k) : dflt[i % sizeof dflt]); }
        ExactBuf in(msg);
        try {
            DNS dns(in.p, (uint32_t)msg.size());
            dns.add_answer(DNS::resource("a", "192.0.2.1", DNS::A, DNS::IN, 60));
            printf("add_answer returned\n");
        } catch (const exception_base& e) { printf("rejected with a libtins exception: %s\n", e.what()); }
        return 0;       // a defect shows as an ASan report (exit 99)
    }
    if (r.str("unit") == "dns.insertion_plan") {
        // compressed message: 1 question, 0 answers, 1 authority, 2 additional; the second additional record's owner is a
        // pointer to the first one's owner (message offset 51, i.e. after every splice point): each add_* must leave all
        // sections readable with the same names.
        static const uint8_t msg[] = { 0x12,0x34, 0x81,0x80, 0,1, 0,0, 0,1, 0,2,
            3,'w','w','w', 7,'e','x','a','m','p','l','e', 3,'c','o','m', 0,  0,1, 0,1,
            0xc0,16, 0,2, 0,1, 0,0,0,60, 0,6, 3,'n','s','1', 0xc0,16,
            3,'n','s','1', 0xc0,16, 0,1, 0,1, 0,0,0,60, 0,4, 192,0,2,1,
            0xc0,51, 0,1, 0,1, 0,0,0,60, 0,4, 192,0,2,2 };
        for (int op = 0; op < 3; ++op) {
            DNS dns(msg, sizeof msg);
            DNS::resources_type au0 = dns.authority(), ad0 = dns.additional();
            if (op == 0) dns.add_query(DNS::query("mail.example.org", DNS::A, DNS::IN));
            if (op == 1) dns.add_answer(DNS::resource("www.example.com", "192.0.2.9", DNS::A, DNS::IN, 60));
            if (op == 2) dns.add_authority(DNS::resource("example.com", "ns2.example.com", DNS::NS, DNS::IN, 60));
            try {
                DNS::resources_type au1 = dns.authority(), ad1 = dns.additional();
                if (ad1.size() != ad0.size()) { printf("DEFECT: op %d: %zu additional records, had %zu\n", op, ad1.size(), ad0.size()); ++bad; continue; }
                for (size_t i = 0; i < ad0.size(); ++i)
                    if (ad1[i].dname() != ad0[i].dname() || ad1[i].data() != ad0[i].data()) { printf("DEFECT: op %d: additional[%zu] was (%s, %s), now (%s, %s)\n", op, i, ad0[i].dname().c_str(), ad0[i].data().c_str(), ad1[i].dname().c_str(), ad1[i].data().c_str()); ++bad; }
                for (size_t i = 0; i < au0.size() && i < au1.size(); ++i)
                    if (au1[i].dname() != au0[i].dname() || au1[i].data() != au0[i].data()) { printf("DEFECT: op %d: authority[%zu] changed\n", op, i); ++bad; }
            } catch (const std::exception& e) { printf("DEFECT: op %d: sections unreadable after the insertion: %s\n", op, e.what()); ++bad; }
        }
        if (!bad) printf("ok\n");
        return bad ? 1 : 0;
    }
    if (ob.find("shifted iff") == std::string::npos) {
        DNS dns;
        dns.add_query(DNS::query("www.example.com", DNS::A, DNS::IN));
        dns.add_authority(DNS::resource("example.com", "ns1.example.com", DNS::NS, DNS::IN, 3600));
        dns.add_authority(DNS::resource("example.com", "ns2.example.com", DNS::NS, DNS::IN, 3600));
        dns.add_answer(DNS::resource("www.example.com", "192.0.2.1", DNS::A, DNS::IN, 60));   // walks the authority section
        DNS::resources_type au = dns.authority();
        if (au.size() != 2 || au[0].data() != "ns1.example.com" || au[1].data() != "ns2.example.com") { printf("DEFECT: authority section changed by add_answer\n"); ++bad; }
        printf("authority records after add_answer: %zu\n", au.size());
    } else {
        // question name at message offset 12 ("www" 12, "example" 16, "com" 24); answer section empty; one authority record
        // whose owner (and NS target suffix) is a pointer to "com" (message offset 24 = record-area position 12).
        // add_answer splices at record-area position 21 (end of the question): the target (position 12) lies in the 11
        // octets before the splice, does not move, and the pointer must keep designating "com".
        static const uint8_t msg[] = { 0x12,0x34, 0x81,0x80, 0,1, 0,0, 0,1, 0,0,
            3,'w','w','w', 7,'e','x','a','m','p','l','e', 3,'c','o','m', 0,  0,1, 0,1,
            0xc0, 24,  0,2, 0,1, 0,0,0,60, 0,6,  3,'n','s','1', 0xc0, 24 };
        DNS dns(msg, sizeof msg);
        std::string before = dns.authority().at(0).dname();
        dns.add_answer(DNS::resource("www.example.com", "192.0.2.1", DNS::A, DNS::IN, 60));
        std::string after = dns.authority().at(0).dname();
        printf("authority owner before add_answer: %s, after: %s\n", before.c_str(), after.c_str());
        if (before != after) { printf("DEFECT: a compression pointer no longer designates the same name\n"); ++bad; }
    }
    return bad ? 1 : 0;
}
