// Native replay for the RadioTap writer units (C11).  A header holding the witness's following fields (W_bit0.. , W_nf of them)
// plus, in turn, every choice of earlier fields is built in canonical layout, parsed with RadioTap(buffer), and the witness's new
// field (W_new) is inserted through RadioTap::add_option; options_payload() must then be the canonical layout of the new field set.
// Runs under ASan, so an insert() past the end is reported too.  For radiotap.accessors the witness names a setter/getter pair.
#include <tins/tins.h>
#include "replay_util.h"
using namespace Tins;
static const struct { uint32_t size, align; } META[] = { {8,8},{1,1},{1,1},{4,2},{2,2},{1,1},{1,1},{2,2},{2,2},{2,2},{1,1},{1,1},{1,1},{1,1},{2,2},{2,2},{1,1},{1,1},{8,4},{3,1},{8,4},{12,2} };   // radiotap.org field table
static std::vector<uint8_t> canonical(uint32_t present) {
    std::vector<uint8_t> out(4);
    for (int i = 0; i < 4; ++i) out[i] = (present >> (8 * i)) & 0xff;
    for (uint32_t bit = 0; bit < 22; ++bit) if (present & (1u << bit)) {
        while ((out.size() + 4) % META[bit].align) out.push_back(0);
        for (uint32_t k = 0; k < META[bit].size; ++k) out.push_back(bit == 1 ? 0 : (uint8_t)(0x10 + 8 * bit + k));   // FLAGS = 0: no FCS
    }
    return out;
}
static int try_insert(uint32_t present, uint32_t nb) {
    std::vector<uint8_t> opts = canonical(present);
    std::vector<uint8_t> pkt(4);
    pkt[0] = 0; pkt[1] = 0; uint16_t len = (uint16_t)(4 + opts.size()); pkt[2] = len & 0xff; pkt[3] = len >> 8;
    pkt.insert(pkt.end(), opts.begin(), opts.end());
    static const uint8_t ack[] = { 0xd4, 0x00, 0, 0, 1, 2, 3, 4, 5, 6 };   // 802.11 ACK frame behind the header
    pkt.insert(pkt.end(), ack, ack + sizeof ack);
    RadioTap r(pkt.data(), (uint32_t)pkt.size());
    std::vector<uint8_t> val(META[nb].size);
    for (uint32_t k = 0; k < META[nb].size; ++k) val[k] = nb == 1 ? 0 : (uint8_t)(0x10 + 8 * nb + k);
    r.add_option(RadioTap::option((RadioTap::PresentFlags)(1u << nb), val.size(), val.data()));
    std::vector<uint8_t> want = canonical(present | (1u << nb));
    if (r.options_payload() != want) {
        printf("DEFECT: fields 0x%x present, inserting bit %u: options payload is not the canonical layout\n   got:     ", present, nb);
        for (uint8_t b : r.options_payload()) printf(" %02x", b);
        printf("\n   expected:");
        for (uint8_t b : want) printf(" %02x", b);
        printf("\n");
        return 1;
    }
    return 0;
}
int main(int, char** argv) {
    Replay r(argv[1]);
    if (r.str("unit") == "radiotap.accessors") {
        RadioTap rt;
        rt.signal_quality(0x37);
        std::vector<uint8_t> want; {
            // default object: TSFT, FLAGS, CHANNEL, DBM_SIGNAL, ANTENNA, RX_FLAGS (radiotap.cpp constructor) + LOCK_QUALITY
            RadioTap ref; uint32_t pres = (uint32_t)ref.present() | RadioTap::LOCK_QUALITY; (void)pres;
        }
        int bad = 0;
        try { if (rt.signal_quality() != 0x37) { printf("DEFECT: signal_quality(0x37) then signal_quality() returns 0x%x\n", rt.signal_quality()); bad = 1; } }
        catch (const std::exception& e) { printf("DEFECT: signal_quality() after signal_quality(0x37): %s\n", e.what()); bad = 1; }
        if (!(rt.present() & RadioTap::LOCK_QUALITY)) { printf("DEFECT: LOCK_QUALITY not present\n"); bad = 1; }
        if (rt.dbm_signal() != -50 || rt.antenna() != 0 || rt.rx_flags() != 0) { printf("DEFECT: signal_quality() disturbed dbm_signal/antenna/rx_flags: %d %u %u\n", rt.dbm_signal(), rt.antenna(), rt.rx_flags()); bad = 1; }
        if (!bad) printf("ok\n");
        return bad;
    }
    if (r.str("unit").find("radiotap.parsed_fields_fit") == 0) {
        // captured frames whose present word announces a field that does not fit into the options (every single field of the
        // table, with 1 octet of field data): if the constructor accepts one, setting a field on it edits outside the buffer (ASan)
        for (uint32_t bit = 0; bit < 22; ++bit) {
            if (META[bit].size < 2) continue;
            std::vector<uint8_t> m = {0, 0, 9, 0, 0, 0, 0, 0, 0xaa, 0xd4, 0x00, 0, 0, 1, 2, 3, 4, 5, 6};
            for (int i = 0; i < 4; ++i) m[4 + i] = ((1u << bit) >> (8 * i)) & 0xff;
            ExactBuf in(m);
            try {
                RadioTap rt(in.p, (uint32_t)m.size());
                printf("accepted a header whose field %u (%u octets) has 1 octet of data; now setting fields on it\n", bit, META[bit].size);
                rt.rate(2); rt.tsft(1); rt.xchannel(RadioTap::xchannel_type());
                printf("DEFECT: setters ran on a header with a truncated field\n"); return 1;
            } catch (const malformed_packet&) { }
        }
        printf("ok: truncated headers are rejected\n"); return 0;
    }
    if (r.str("unit") == "radiotap.write_option") {
        uint32_t present = (uint32_t)r.num("W_present", 1u << 18) & 0x3fffff, nb2 = (uint32_t)r.num("W_new", 15) % 22;
        try { if (present & (1u << nb2)) { printf("field already present: overwrite path\n"); return 0; } return try_insert(present, nb2) ? 1 : (printf("ok\n"), 0); }
        catch (const malformed_packet&) { printf("driver could not build its own input\n"); return 0; }
    }
    uint32_t nf = (uint32_t)r.num("W_nf", 2), nb = (uint32_t)r.num("W_new", 2);
    uint32_t bits[3] = { (uint32_t)r.num("W_bit0", 14), (uint32_t)r.num("W_bit1", 18), (uint32_t)r.num("W_bit2", 19) };
    uint32_t followers = 0;
    for (uint32_t i = 0; i < nf && i < 3; ++i) if (bits[i] < 22) followers |= 1u << bits[i];
    if (nb >= 22) nb = 2;
    // every set of earlier fields (bits below the new one)
    try {
        if (r.has("W_earlier")) { if (try_insert(((uint32_t)r.num("W_earlier") & ((1u << nb) - 1)) | followers, nb)) return 1; }
        else for (uint32_t earlier = 0; earlier < (1u << nb); ++earlier)
            if (try_insert(earlier | followers, nb)) return 1;
    } catch (const malformed_packet&) { printf("driver could not build its own input\n"); return 0; }
    printf("ok\n"); return 0;
}
