// Native replay for pdu_option.value_semantics: the witness (W_op, W_n1, W_n2, W_d1, W_d2) on a real PDUOption, under ASan.
#include <tins/tins.h>
#include "replay_util.h"
using namespace Tins;
typedef TCP::option Opt;
int main(int argc, char** argv) {
    Replay r(argv[1]);
    int op = (int)r.num("W_op", 1);
    size_t n1 = (size_t)r.num("W_n1", 12), n2 = (size_t)r.num("W_n2", 12);
    if (n1 > 12) n1 = 12; if (n2 > 12) n2 = 12;
    std::vector<uint8_t> d1 = r.bytes("W_d1", n1, 0x11), d2 = r.bytes("W_d2", n2, 0x22);
    Opt a(TCP::SACK, d1.begin(), d1.end()), b(TCP::TSOPT, d2.begin(), d2.end());
    printf("W_op=%d W_n1=%zu W_n2=%zu\n", op, n1, n2);
    int bad = 0;
    if (op == 1) {
        Opt& alias = a;
        a = alias;                                   // self-assignment
        if (a.data_size() != n1 || (n1 && memcmp(a.data_ptr(), d1.data(), n1) != 0)) { printf("DEFECT: self-assignment changed the option\n"); ++bad; }
    } else if (op == 0) { a = b; if (a.data_size() != n2 || (n2 && memcmp(a.data_ptr(), d2.data(), n2))) ++bad; }
    else if (op == 2) { Opt c(b); if (c.data_size() != n2) ++bad; }
    else if (op == 3) { Opt c(std::move(b)); if (c.data_size() != n2) ++bad; }
    else { a = std::move(b); if (op == 5) b = a; if (a.data_size() != n2) ++bad; }
    return bad ? 1 : 0;
}
