// Native replay for packet.ownership: the witness (W_ka, W_kb, W_op) is rebuilt with real Packet wrappers around IP / TCP / RawPDU
// chains of W_ka and W_kb layers (0 = empty wrapper) and the operation is applied; ASan/LSan check the frees.
#include <tins/tins.h>
#include "replay_util.h"
using namespace Tins;
static Packet make(int k, const char* src) {
    if (k <= 0) return Packet();
    IP ip("1.2.3.4", src); if (k >= 3) ip /= TCP(1, 2) / RawPDU("payload"); else if (k == 2) ip /= TCP(1, 2);
    return Packet(ip, Timestamp());
}
static int len(const PDU* p) { int n = 0; while (p) { ++n; p = p->inner_pdu(); } return n; }
int main(int argc, char** argv) {
    if (argc < 2) return 0;
    Replay r(argv[1]);
    int ka = (int)r.num("W_ka", 2), kb = (int)r.num("W_kb", 0), op = (int)r.num("W_op", 0);
    Packet a = make(ka, "5.6.7.8"), b = make(kb, "9.9.9.9");
    int bad = 0;
    printf("W_ka=%d W_kb=%d W_op=%d\n", ka, kb, op);
    if (op == 0) {
        a = b;
        printf("copy assignment: target has %d layers, source %d\n", len(a.pdu()), len(b.pdu()));
        if (len(a.pdu()) != len(b.pdu())) { printf("DEFECT: the copy of a Packet is not equal to its source\n"); ++bad; }
        else if (a.pdu() && (a.pdu() == b.pdu() || a.pdu()->serialize() != b.pdu()->serialize())) { printf("DEFECT: the copy is shallow or differs\n"); ++bad; }
    } else if (op == 1) {
        Packet c(b);
        if (len(c.pdu()) != kb || (c.pdu() && c.pdu() == b.pdu())) { printf("DEFECT: copy construction\n"); ++bad; }
    } else if (op == 2) {
        const PDU* was = b.pdu();
        Packet c(std::move(b));
        if (c.pdu() != was || b.pdu() != 0) { printf("DEFECT: move construction leaves two owners\n"); ++bad; }
    } else if (op == 3) {
        const PDU* was = b.pdu();
        a = std::move(b);
        if (a.pdu() != was || (b.pdu() && b.pdu() == a.pdu())) { printf("DEFECT: move assignment\n"); ++bad; }
    } else if (op == 4) {
        PDU* x = a.release_pdu();
        if (a.pdu() != 0) { printf("DEFECT: release_pdu keeps ownership\n"); ++bad; }
        delete x;
    } else if (op == 5) {
        Packet& ref = a; a = ref;
        if (len(a.pdu()) != (ka < 0 ? 0 : ka)) { printf("DEFECT: self assignment lost the layers\n"); ++bad; }
    }
    return bad ? 1 : 0;
}
