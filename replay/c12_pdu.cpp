// Native replay for pdu.ownership: the witness (W_ka, W_kb, W_op) is rebuilt with real layer classes
// (IP / TCP / RawPDU chains of W_ka and W_kb layers) and the operation is applied; ASan/LSan check the frees.
#include <tins/tins.h>
#include "replay_util.h"
using namespace Tins;
static IP make(int k) { IP ip("1.2.3.4", "5.6.7.8"); if (k >= 3) ip /= TCP(1, 2) / RawPDU("payload"); else if (k == 2) ip /= TCP(1, 2); return ip; }
static int len(const PDU* p) { int n = 0; while (p) { ++n; p = p->inner_pdu(); } return n; }
static bool forest(const PDU* p) { while (p && p->inner_pdu()) { if (p->inner_pdu()->parent_pdu() != p) return false; p = p->inner_pdu(); } return true; }
int main(int argc, char** argv) {
    Replay r(argv[1]);
    int ka = (int)r.num("W_ka", 3), kb = (int)r.num("W_kb", 1), op = (int)r.num("W_op", 2);
    if (kb < 1) kb = 1;
    IP a = make(ka), b = make(kb);
    int bad = 0;
    printf("W_ka=%d W_kb=%d W_op=%d\n", ka, kb, op);
    if (op == 2) {
        a = b;
        printf("copy assignment: target has %d layers, source %d\n", len(&a), len(&b));
        if (len(&a) != len(&b)) { printf("DEFECT: the copy is not equal to its source (the target kept its old upper layers)\n"); ++bad; }
        if (a.serialize() != b.serialize()) { printf("DEFECT: serialize(copy) != serialize(source)\n"); ++bad; }
    } else if (op == 5) {
        a = std::move(b);
        if (len(&a) != kb || b.inner_pdu() != 0) { printf("DEFECT: move assignment\n"); ++bad; }
    } else if (op == 1) {
        PDU* x = a.release_inner_pdu();
        if (a.inner_pdu() || (x && x->parent_pdu())) { printf("DEFECT: release_inner_pdu\n"); ++bad; }
        delete x;
    } else if (op == 0) {
        a.inner_pdu(b.clone());
    } else if (op == 6) {
        a.inner_pdu(b);
    } else if (op == 7 && b.inner_pdu()) {
        PDU* c = b.inner_pdu()->clone();
        if (c->parent_pdu() != 0) { printf("DEFECT: a clone of a child layer has a parent link (into its source's tree) although the user owns it\n"); ++bad; }
        delete c;
    } else {
        IP c(b); if (len(&c) != kb) { printf("DEFECT: copy construction\n"); ++bad; }
    }
    if (!forest(&a) || !forest(&b)) { printf("DEFECT: a parent link does not designate the owner\n"); ++bad; }
    return bad ? 1 : 0;
}
