// Native replay for C14 units: call <Class>::matches_response on a default-constructed object with a heap buffer of
// exactly total_sz bytes. A sanitizer report (exit 99/98) or a wrong verdict reproduces the violation.
#include <tins/tins.h>
#include <tins/loopback.h>
#include "replay_util.h"
using namespace Tins;
int main(int argc, char** argv) {
    Replay r(argv[1]);
    std::string unit = r.str("unit");
    size_t n = (size_t)r.num("total_sz", r.num("n", 0));
    if (n > 70000) n = 70000;
    std::vector<uint8_t> bytes = r.bytes("W_buf", n, 0xff);
    ExactBuf buf(bytes);
    bool res = false;
    if (unit.find("radiotap") == 0) { RadioTap p; res = p.matches_response(buf.p, (uint32_t)n); }
    else if (unit.find("ipv6") == 0) { IPv6 p; p /= RawPDU("x"); res = p.matches_response(buf.p, (uint32_t)n); }
    else if (unit.find("ip.") == 0) { IP p; res = p.matches_response(buf.p, (uint32_t)n); }
    else if (unit.find("tcp") == 0) { TCP p; res = p.matches_response(buf.p, (uint32_t)n); }
    else if (unit.find("udp") == 0) { UDP p; res = p.matches_response(buf.p, (uint32_t)n); }
    else if (unit.find("ethernetII") == 0) { EthernetII p; res = p.matches_response(buf.p, (uint32_t)n); }
    else if (unit.find("dot3") == 0) { Dot3 p; res = p.matches_response(buf.p, (uint32_t)n); }
    else if (unit.find("dot1q") == 0) { Dot1Q p; res = p.matches_response(buf.p, (uint32_t)n); }
    else if (unit.find("icmpv6") == 0) { ICMPv6 p; res = p.matches_response(buf.p, (uint32_t)n); }
    else if (unit.find("icmp") == 0) { ICMP p; res = p.matches_response(buf.p, (uint32_t)n); }
    else if (unit.find("dns") == 0) { DNS p; res = p.matches_response(buf.p, (uint32_t)n); }
    else if (unit.find("bootp") == 0) { BootP p; res = p.matches_response(buf.p, (uint32_t)n); }
    else if (unit.find("dhcpv6") == 0) { DHCPv6 p; res = p.matches_response(buf.p, (uint32_t)n); }
    else if (unit.find("arp") == 0) { ARP p; res = p.matches_response(buf.p, (uint32_t)n); }
    else if (unit.find("loopback") == 0) { Loopback p; res = p.matches_response(buf.p, (uint32_t)n); }
    printf("matches_response(buffer of %zu bytes) = %d, no sanitizer report\n", n, (int)res);
    return 0;
}
