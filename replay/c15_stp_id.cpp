// Native replay for stp.bpdu_id (property C15): STP::root_id / bridge_id set with the witness identifier, read back and serialized.
#include <tins/tins.h>
#include "replay_util.h"
using namespace Tins;
int main(int argc, char** argv) {
    if (argc < 2) return 0;
    Replay r(argv[1]);
    unsigned prio = (unsigned)r.num("W_prio", 8) & 15, ext = (unsigned)r.num("W_ext", 0x123) & 4095;
    std::vector<uint8_t> mac = r.bytes("W_mac", 6, 0x11);
    STP stp;
    STP::bpdu_id_type id(prio, ext, HWAddress<6>(mac.data()));
    int bad = 0;
    stp.root_id(id); stp.bridge_id(id);
    STP::bpdu_id_type g = stp.root_id(), g2 = stp.bridge_id();
    printf("set priority %u ext_id 0x%03x; root_id() gives priority %u ext_id 0x%03x\n", prio, ext, (unsigned)g.priority, (unsigned)g.ext_id);
    if (g.priority != prio || g.ext_id != ext || g.id != id.id) { printf("DEFECT: root_id getter does not return the value set\n"); ++bad; }
    if (g2.priority != prio || g2.ext_id != ext || g2.id != id.id) { printf("DEFECT: bridge_id getter does not return the value set\n"); ++bad; }
    std::vector<uint8_t> y = stp.serialize();
    // root id at offset 5, bridge id at offset 17 (IEEE 802.1D configuration BPDU)
    const size_t offs[2] = {5, 17};
    for (int k = 0; k < 2; ++k) {
        const uint8_t* b = &y[offs[k]];
        if (b[0] != (uint8_t)((prio << 4) | (ext >> 8)) || b[1] != (uint8_t)(ext & 0xff) || memcmp(b + 2, mac.data(), 6) != 0) {
            printf("DEFECT: identifier at offset %zu is %02x %02x, expected %02x %02x\n", offs[k], b[0], b[1], (prio << 4) | (ext >> 8), ext & 0xff); ++bad;
        }
    }
    if (!bad) printf("ok\n");
    return bad ? 1 : 0;
}
