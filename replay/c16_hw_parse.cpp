// Native replay for hw.parse_canonical / hw.parse_rejects (property C16): the witness string is given to HWAddress<N>(std::string);
// an accepted string must have the documented form (two hex digits per octet, ':' between octets, at most N octets).
#include <tins/tins.h>
#include "replay_util.h"
using namespace Tins;
static std::string show(const std::string& s) { std::string o; char b[8]; for (unsigned char c : s) { if (c >= 32 && c < 127) o += (char)c; else { snprintf(b, sizeof b, "\\x%02x", c); o += b; } } return o; }
static bool ishex(char c) { return (c >= '0' && c <= '9') || (c >= 'a' && c <= 'f') || (c >= 'A' && c <= 'F'); }
template <size_t N> static int run(const std::string& s) {
    std::vector<uint8_t> got(N);
    try { HWAddress<N> a(s); std::copy(a.begin(), a.end(), got.begin()); }
    catch (invalid_address&) { printf("\"%s\" rejected with invalid_address\n", show(s).c_str()); return 0; }
    printf("\"%s\" accepted by HWAddress<%zu> as", show(s).c_str(), N); for (size_t i = 0; i < N; ++i) printf(" %02x", got[i]); printf("\n");
    size_t pos = 0, groups = 0; int bad = 0;
    while (groups < N && pos < s.size()) {
        unsigned d = 0; while (d < 2 && pos < s.size() && ishex(s[pos])) { ++pos; ++d; }
        if (d != 2) { printf("DEFECT: accepted although octet %zu has %u hex digits %s\n", groups, d, pos == s.size() ? "(cut short by the end of the string)" : "before ':'"); ++bad; break; }
        if (got[groups] != (uint8_t)strtoul(s.substr(pos - 2, 2).c_str(), 0, 16)) { printf("DEFECT: octet %zu differs from what the string spells\n", groups); ++bad; }
        ++groups;
        if (pos < s.size()) {
            if (s[pos] != ':') { printf("DEFECT: accepted although '%c' follows octet %zu\n", s[pos], groups - 1); ++bad; break; }
            ++pos;
            if (pos == s.size()) { printf("DEFECT: accepted although the string ends with ':'\n"); ++bad; }
        }
    }
    if (!bad && pos < s.size()) { printf("DEFECT: accepted although text follows the last octet the address type holds: \"%s\"\n", show(s.substr(pos)).c_str()); ++bad; }
    return bad ? 1 : 0;
}
int main(int argc, char** argv) {
    if (argc < 2) return 0;
    Replay r(argv[1]);
    if (r.str("unit").find("canonical") != std::string::npos) {
        std::vector<uint8_t> a = r.bytes("W_a", 6, 0xab);
        HWAddress<6> h(a.data());
        std::string s = h.to_string();
        try { HWAddress<6> back(s); if (back != h) { printf("DEFECT: %s parses to %s\n", s.c_str(), back.to_string().c_str()); return 1; } }
        catch (invalid_address&) { printf("DEFECT: the textual form %s of an address is rejected\n", s.c_str()); return 1; }
        printf("%s ok\n", s.c_str()); return 0;
    }
    size_t n = (size_t)r.num("W_n", 0), N = (size_t)r.num("W_N", 3);
    std::vector<uint8_t> b = r.bytes("W_s", n, '0');
    std::string s(b.begin(), b.end());
    return N == 6 ? run<6>(s) : run<3>(s);
}
