// Native replay for tcp_ip.ack_tracker_step: the witness (W_ack0, W_in, W_X, W_op, W_a, W_b) on a real AckTracker.
// State "X is SACKed" is established by feeding a one-byte SACK block [X, X+1) first.
#include <tins/tins.h>
#include <tins/tcp_ip/ack_tracker.h>
#include "replay_util.h"
#include <boost/icl/interval_set.hpp>
using namespace Tins;
using Tins::TCPIP::AckTracker;
static EthernetII ack_packet(uint32_t ack, const std::vector<uint32_t>& sack) {
    TCP tcp(1, 2); tcp.flags(TCP::ACK); tcp.ack_seq(ack);
    if (!sack.empty()) tcp.sack(sack);
    return EthernetII() / IP("1.1.1.1", "2.2.2.2") / tcp;
}
static bool below(uint32_t x, uint32_t ack) { return (int32_t)(x - ack) < 0; }
int main(int argc, char** argv) {
    Replay r(argv[1]);
    uint32_t ack0 = (uint32_t)r.num("W_ack0", 0), X = (uint32_t)r.num("W_X", 0), a = (uint32_t)r.num("W_a", 0), b = (uint32_t)r.num("W_b", 1);
    bool in = r.num("W_in", 0) != 0; int op = (int)r.num("W_op", 2);
    AckTracker t(ack0, true);
    if (in) { std::vector<uint32_t> s; s.push_back(X); s.push_back(X + 1); t.process_packet(ack_packet(ack0, s)); }
    printf("ack0=%u X=%u in=%d op=%d a=%u b=%u\n", ack0, X, (int)in, op, a, b);
    int bad = 0;
    if (op == 0) {
        t.process_packet(ack_packet(a, std::vector<uint32_t>()));
        bool now_in = boost::icl::contains(t.acked_intervals(), X);
        if (t.ack_number() != a) { printf("DEFECT: ack_number %u != %u\n", t.ack_number(), a); ++bad; }
        if (now_in != (in && !below(X, a))) { printf("DEFECT: SACK membership of X after the ACK is %d\n", (int)now_in); ++bad; }
    } else if (op == 1) {
        std::vector<uint32_t> s; s.push_back(a); s.push_back(b);
        t.process_packet(ack_packet(ack0, s));
        bool now_in = boost::icl::contains(t.acked_intervals(), X);
        bool in_block = (uint32_t)(X - a) < (uint32_t)(b - a);
        if (t.ack_number() != ack0) { printf("DEFECT: SACK moved the cumulative ACK to %u\n", t.ack_number()); ++bad; }
        if (now_in != (in || in_block)) { printf("DEFECT: SACK membership of X is %d, expected %d\n", (int)now_in, (int)(in || in_block)); ++bad; }
    } else {
        bool res = t.is_segment_acked(a, b);
        bool x_in_segment = (uint32_t)(X - a) < b;
        if (res && x_in_segment && !below(X, ack0) && !in) { printf("DEFECT: segment [%u,+%u) reported acknowledged although byte %u is neither below the ACK %u nor SACKed\n", a, b, X, ack0); ++bad; }
    }
    return bad ? 1 : 0;
}
