// Shared helpers for native replay drivers: read "<replay>.json.kv" (key=value lines written by vf/replay.py).
#pragma once
#include <cstdio>
#include <cstdlib>
#include <cstring>
#include <map>
#include <string>
#include <vector>
#include <stdint.h>
struct Replay {
    std::map<std::string, std::string> kv;
    explicit Replay(const char* json_path) {
        std::string p = std::string(json_path) + ".kv";
        FILE* f = fopen(p.c_str(), "r");
        if (!f) { fprintf(stderr, "cannot open %s\n", p.c_str()); exit(0); }
        char line[4096];
        while (fgets(line, sizeof line, f)) {
            char* eq = strchr(line, '=');
            if (!eq) continue;
            *eq = 0;
            std::string v(eq + 1);
            while (!v.empty() && (v.back() == '\n' || v.back() == '\r')) v.pop_back();
            kv[line] = v;
        }
        fclose(f);
    }
    bool has(const std::string& k) const { return kv.count(k) != 0; }
    std::string str(const std::string& k, const std::string& d = "") const { auto i = kv.find(k); return i == kv.end() ? d : i->second; }
    // CBMC prints e.g. "10u", "3ul", "-1", "TRUE"
    long long num(const std::string& k, long long d = 0) const {
        auto i = kv.find(k);
        if (i == kv.end()) return d;
        if (i->second == "TRUE") return 1;
        if (i->second == "FALSE") return 0;
        if (i->second.size() >= 3 && i->second[0] == '\'') {      // a character literal: 'A', '\n', '\\'
            const std::string& c = i->second;
            if (c[1] != '\\') return (unsigned char)c[1];
            switch (c[2]) { case 'n': return '\n'; case 't': return '\t'; case 'r': return '\r'; case '0': return 0; case '\\': return '\\'; case '\'': return '\''; default: return strtoll(c.c_str() + 2, 0, 8); }
        }
        return strtoll(i->second.c_str(), 0, 0);
    }
    // bytes of an array witness "name[i]"; missing elements are `fill`
    std::vector<uint8_t> bytes(const std::string& name, size_t n, uint8_t fill = 0) const {
        std::vector<uint8_t> out(n, fill);
        for (size_t i = 0; i < n; ++i) {
            char key[128];
            snprintf(key, sizeof key, "%s[%zu]", name.c_str(), i);
            if (has(key)) out[i] = (uint8_t)num(key);
            snprintf(key, sizeof key, "%s[%zul]", name.c_str(), i);
            if (has(key)) out[i] = (uint8_t)num(key);
        }
        return out;
    }
};
// exact-size heap block so that ASan sees any over-read
struct ExactBuf {
    uint8_t* p; size_t n;
    explicit ExactBuf(const std::vector<uint8_t>& v) : p((uint8_t*)malloc(v.size() ? v.size() : 1)), n(v.size()) {
        if (v.empty()) { free(p); p = (uint8_t*)malloc(0); }
        else memcpy(p, v.data(), v.size());
    }
    ~ExactBuf() { free(p); }
};
