"""C01: generic option converters of src/pdu_option.cpp (Internals::Converters): reads inside [ptr, ptr+data_size), writes
inside the result vector, throw only libtins exceptions, terminate. Templates are instantiated textually per T."""
import os

HEAD = '''#! unit: converter.%(name)s
#! property: C01
#! mode: proof
#! entry: h
#! enforce: conv
#! replace: IMS_read_uint8_t IMS_read_uint16_t IMS_read_uint32_t IMS_read_uint64_t IMS_bool tins_sink_range
#! allow-exc: malformed_option
#! anchors: Internals::Converters::%(fn)s%(inst)s (src/pdu_option.cpp)
#! assumed: std::vector<T> output(n) is a block of n elements written through its iterator (element writes are bounds-checked obligations); push_back and range constructors copy readable ranges
//@ include lib/endian.h
//@ include lib/ims.h
typedef int endian_type; enum { PT_BE = 0, PT_LE = 1 };   /* PDU::endian_type { BE, LE } */
void tins_sink_range(const uint8_t* first, const uint8_t* last)
__CPROVER_requires(__CPROVER_same_object(first, last) && __CPROVER_POINTER_OFFSET(first) <= __CPROVER_POINTER_OFFSET(last))
__CPROVER_requires(__CPROVER_r_ok(first, __CPROVER_POINTER_OFFSET(last) - __CPROVER_POINTER_OFFSET(first)))
__CPROVER_assigns()
;
#define TINS_USE(...) ((void)0, (void)(__VA_ARGS__))
//@ func src/pdu_option.cpp %(fn)s %(match)s
sig: void conv(const uint8_t* ptr, uint32_t data_size, endian_type endian)
obj: input=IMS
%(rules)s
rule?: \\breturn [^;]+; ==> return;
contract:
__CPROVER_requires(data_size <= 65535 && __CPROVER_is_fresh(ptr, data_size))
__CPROVER_assigns()
end
%(loops)s
//@ endfunc
void h(void) { const uint8_t* p; uint32_t n; endian_type e; conv(p, n, e); TINS_REACH("post"); }
'''
IN_LOOP = '''loop 0:
__CPROVER_assigns(input%s)
__CPROVER_loop_invariant(__CPROVER_same_object(input.buffer_, ptr) && __CPROVER_POINTER_OFFSET(input.buffer_) >= 0 && __CPROVER_POINTER_OFFSET(input.buffer_) <= data_size && input.size_ == data_size - __CPROVER_POINTER_OFFSET(input.buffer_)%s)
__CPROVER_decreases(input.size_)
end'''


def generate(outdir, tier):
    U = []
    for t, n in (('uint16_t', 2), ('uint32_t', 4), ('uint64_t', 8)):
        U.append(('to_integral_' + t, dict(fn='convert_to_integral', inst='<%s>' % t, match='', loops='',
                  rules='rule: \\bT data = \\*\\(T\\*\\)ptr; ==> %s data = *(const %s*)ptr;\nrule: sizeof\\(T\\) ==> sizeof(%s)\nrule: return data; ==> TINS_USE(data); return;' % (t, t, t))))
    # convert_vector<T> and convert<vector<IPv4Address>> (writes through an iterator into a sized vector) are not under contract yet:
    # the loop-contract proof of the element writes did not go through (pointer havoc of the output iterator); listed as not covered.
    U.append(('vector_IPv6Address', dict(fn='convert', inst=' vector<IPv6Address>', match='match "type_to_type<vector<IPv6Address> >"',
              loops='loop 0:\n__CPROVER_assigns(ptr)\n__CPROVER_loop_invariant(__CPROVER_same_object(ptr, end) && __CPROVER_POINTER_OFFSET(ptr) >= 0 && __CPROVER_POINTER_OFFSET(ptr) <= data_size && (data_size - __CPROVER_POINTER_OFFSET(ptr)) % 16 == 0)\n__CPROVER_decreases(data_size - __CPROVER_POINTER_OFFSET(ptr))\nend',
              rules='rule: IPv6Address::address_size ==> 16\nrule: vector<IPv6Address> output; ==>\nrule: output\\.push_back\\(IPv6Address\\(ptr\\)\\); ==> tins_sink_range(ptr, ptr + 16); /* IPv6Address(const uint8_t*) copies 16 bytes */')))
    U.append(('vector_float', dict(fn='convert', inst=' vector<float>', match='match "type_to_type<vector<float> >"',
              loops='loop 0:\n__CPROVER_assigns(ptr)\n__CPROVER_loop_invariant(__CPROVER_same_object(ptr, end) && __CPROVER_POINTER_OFFSET(ptr) >= 0 && __CPROVER_POINTER_OFFSET(ptr) <= data_size)\n__CPROVER_decreases(data_size - __CPROVER_POINTER_OFFSET(ptr))\nend',
              rules='rule: vector<float> output; ==>\nrule: output\\.push_back\\(float\\(\\*\\(ptr\\+\\+\\) & 0x7f\\) / 2\\); ==> TINS_USE((float)(*(ptr++) & 0x7f) / 2);')))
    U.append(('uint8_t', dict(fn='convert', inst=' uint8_t', match='match "type_to_type<uint8_t>"', loops='', rules='rule: return \\*ptr; ==> TINS_USE(*ptr); return;')))
    U.append(('HWAddress6', dict(fn='convert', inst=' HWAddress<6>', match='match "type_to_type<HWAddress<6> >"', loops='', rules='rule: return HWAddress<6>\\(ptr\\); ==> tins_sink_range(ptr, ptr + 6); return; /* HWAddress(const uint8_t*) copies 6 bytes */')))
    U.append(('IPv6Address', dict(fn='convert', inst=' IPv6Address', match='match "type_to_type<IPv6Address>"', loops='', rules='rule: IPv6Address::address_size ==> 16\nrule: return IPv6Address\\(ptr\\); ==> tins_sink_range(ptr, ptr + 16); return;')))
    U.append(('string', dict(fn='convert', inst=' string', match='match "type_to_type<string>"', loops='', rules='rule: return string\\(ptr, ptr \\+ data_size\\); ==> tins_sink_range(ptr, ptr + data_size); return;')))
    paths = []
    for n, d in U:
        d = dict(d, name=n)
        p = os.path.join(outdir, 'converter_%s.unit' % n)
        with open(p, 'w') as f:
            f.write(HEAD % d)
        paths.append(p)
    return paths
