"""C01 cursor units: one unit per InputMemoryStream / OutputMemoryStream method, each body enforced against the contract
macro of specs/lib/ims.h / oms.h that every parser / serializer unit uses by replacement."""
import os

HEAD = '''#! unit: cursor.%(name)s
#! property: C01
#! mode: proof
#! entry: h_cursor
#! enforce: %(cname)s
#! replace: %(replace)s
#! anchors: %(anchor)s
#! assumed: memcpy copies n bytes (libc contract; only the precondition is checked)
#define IMS_BODIES
//@ include lib/endian.h
//@ include lib/mem.h
//@ include lib/ims.h
%(protos)s
/* from here on preconditions are those of the ENFORCED contract */
#undef TINS_PRE_R
#undef TINS_PRE_W
#define TINS_PRE_R(p, n) __CPROVER_is_fresh((p), (n))
#define TINS_PRE_W(p, n) __CPROVER_is_fresh((p), (n))
//@ func %(file)s "InputMemoryStream::%(meth)s" %(match)s
sig: %(sig)s
class: InputMemoryStream include/tins/memory_helpers.h
overload: read/1=IMS_read_obj size/1=IMS_size_set
%(rules)s
contract:
%(contract)s
end
//@ endfunc
void h_cursor(void) {
  %(harness)s
  TINS_REACH("post");
}
'''
H = 'include/tins/memory_helpers.h'
C = 'src/memory_helpers.cpp'
P = {
 'skip': 'void IMS_skip(IMS* this, size_t size) IMS_SKIP_CONTRACT;',
 'can_read': '_Bool IMS_can_read(const IMS* this, size_t byte_count) IMS_CAN_READ_CONTRACT;',
 'read_obj': 'void IMS_read_obj(IMS* this, void* output, size_t n) IMS_READ_OBJ_CONTRACT;',
 'pointer': 'const uint8_t* IMS_pointer(const IMS* this) IMS_POINTER_CONTRACT;',
 'read_u8': 'uint8_t IMS_read_uint8_t(IMS* this) IMS_READ_U8_CONTRACT;',
 'read_u16': 'uint16_t IMS_read_uint16_t(IMS* this) IMS_READ_N_CONTRACT(2) __CPROVER_ensures(((const uint8_t*)&__CPROVER_return_value)[0] == __CPROVER_old(this->buffer_)[0] && ((const uint8_t*)&__CPROVER_return_value)[1] == __CPROVER_old(this->buffer_)[1]);',
 'read_u32': 'uint32_t IMS_read_uint32_t(IMS* this) IMS_READ_N_CONTRACT(4);',
 'read_u64': 'uint64_t IMS_read_uint64_t(IMS* this) IMS_READ_N_CONTRACT(8);',
}


def unit(name, cname, file, meth, match, sig, contract, harness, uses=(), rules=''):
    return HEAD % dict(name=name, cname=cname, file=file, meth=meth, match=('match "%s"' % match) if match else '', sig=sig,
                       contract=contract, harness=harness, rules=rules,
                       replace=' '.join({'skip': 'IMS_skip', 'can_read': 'IMS_can_read', 'read_obj': 'IMS_read_obj', 'pointer': 'IMS_pointer', 'memcpy': 'tins_memcpy2',
                                         'read_u8': 'IMS_read_uint8_t', 'read_u16': 'IMS_read_uint16_t', 'read_u32': 'IMS_read_uint32_t', 'read_u64': 'IMS_read_uint64_t'}[u] for u in uses),
                       protos='\n'.join(P[u] for u in uses if u in P),
                       anchor='InputMemoryStream::%s (%s)' % (meth, file))


def generate(outdir, tier):
    U = []
    U.append(('ims_ctor', unit('ims_ctor', 'IMS_ctor', H, 'InputMemoryStream', 'const uint8_t* buffer, size_t total_sz',
                               'void IMS_ctor(IMS* this, const uint8_t* buffer, size_t total_sz)', 'IMS_CTOR_CONTRACT',
                               'IMS* s; const uint8_t* b; size_t n; IMS_ctor(s, b, n);', rules='inits: lower')))
    U.append(('ims_skip', unit('ims_skip', 'IMS_skip', H, 'skip', 'size_t size', 'void IMS_skip(IMS* this, size_t size)', 'IMS_SKIP_CONTRACT',
                               'IMS* s; size_t n; IMS_skip(s, n);', rules='mutant: size > size_ ==> size > size_ + 1')))
    U.append(('ims_can_read', unit('ims_can_read', 'IMS_can_read', H, 'can_read', None, '_Bool IMS_can_read(const IMS* this, size_t byte_count)', 'IMS_CAN_READ_CONTRACT',
                                   'IMS* s; size_t n; IMS_can_read(s, n);', rules='mutant: size_ >= byte_count ==> size_ + 1 >= byte_count')))
    U.append(('ims_read_obj', unit('ims_read_obj', 'IMS_read_obj', H, 'read', 'void read(T& value)', 'void IMS_read_obj(IMS* this, void* output, size_t n)', 'IMS_READ_OBJ_CONTRACT',
                                   'IMS* s; void* o; size_t n; IMS_read_obj(s, o, n);', uses=('can_read', 'skip', 'memcpy'),
                                   rules='rule: sizeof\\(value\\) ==> n\nrule: read_value\\(this->buffer_, value\\) ==> tins_memcpy2(output, this->buffer_, n) /* read_value = std::memcpy(&value, buffer, sizeof(value)) */')))
    U.append(('ims_read_buf', unit('ims_read_buf', 'IMS_read_buf', H, 'read', 'void* output_buffer, size_t output_buffer_size', 'void IMS_read_buf(IMS* this, void* output, size_t n)', 'IMS_READ_OBJ_CONTRACT',
                                   'IMS* s; void* o; size_t n; IMS_read_buf(s, o, n);', uses=('can_read', 'skip', 'memcpy'),
                                   rules='rule: output_buffer_size ==> n\nrule: read_data\\(this->buffer_, \\(uint8_t\\*\\)output_buffer, n\\) ==> tins_memcpy2(output, this->buffer_, n) /* read_data = std::memcpy */')))
    for t, bits, con in (('uint8_t', 8, 'IMS_READ_U8_CONTRACT'), ('uint16_t', 16, 'IMS_READ_N_CONTRACT(2)'), ('uint32_t', 32, 'IMS_READ_N_CONTRACT(4)'), ('uint64_t', 64, 'IMS_READ_N_CONTRACT(8)')):
        U.append(('ims_read_' + t, unit('ims_read_' + t, 'IMS_read_' + t, H, 'read', 'T read()', '%s IMS_read_%s(IMS* this)' % (t, t), con,
                                        'IMS* s; IMS_read_%s(s);' % t, uses=('read_obj',),
                                        rules='rule: \\bT output; ==> %s output;\nrule: IMS_read_obj\\(this, output\\) ==> IMS_read_obj(this, &output, sizeof(output))' % t)))
    U.append(('ims_read_be_uint16_t', unit('ims_read_be_uint16_t', 'IMS_read_be_uint16_t', H, 'read_be', None, 'uint16_t IMS_read_be_uint16_t(IMS* this)', 'IMS_READ_BE16_CONTRACT',
                                           'IMS* s; IMS_read_be_uint16_t(s);', uses=('read_u16',), rules='rule: read<T>\\(\\) ==> IMS_read_uint16_t(this)')))
    U.append(('ims_read_be_uint32_t', unit('ims_read_be_uint32_t', 'IMS_read_be_uint32_t', H, 'read_be', None, 'uint32_t IMS_read_be_uint32_t(IMS* this)', 'IMS_READ_N_CONTRACT(4)',
                                           'IMS* s; IMS_read_be_uint32_t(s);', uses=('read_u32',), rules='rule: read<T>\\(\\) ==> IMS_read_uint32_t(this)')))
    U.append(('ims_read_be_uint64_t', unit('ims_read_be_uint64_t', 'IMS_read_be_uint64_t', H, 'read_be', None, 'uint64_t IMS_read_be_uint64_t(IMS* this)', 'IMS_READ_N_CONTRACT(8)',
                                           'IMS* s; IMS_read_be_uint64_t(s);', uses=('read_u64',), rules='rule: read<T>\\(\\) ==> IMS_read_uint64_t(this)')))
    U.append(('ims_read_le_uint16_t', unit('ims_read_le_uint16_t', 'IMS_read_le_uint16_t', H, 'read_le', None, 'uint16_t IMS_read_le_uint16_t(IMS* this)', 'IMS_READ_N_CONTRACT(2)',
                                           'IMS* s; IMS_read_le_uint16_t(s);', uses=('read_u16',), rules='rule: read<T>\\(\\) ==> IMS_read_uint16_t(this)')))
    U.append(('ims_read_le_uint32_t', unit('ims_read_le_uint32_t', 'IMS_read_le_uint32_t', H, 'read_le', None, 'uint32_t IMS_read_le_uint32_t(IMS* this)', 'IMS_READ_N_CONTRACT(4)',
                                           'IMS* s; IMS_read_le_uint32_t(s);', uses=('read_u32',), rules='rule: read<T>\\(\\) ==> IMS_read_uint32_t(this)')))
    U.append(('ims_read_le_uint64_t', unit('ims_read_le_uint64_t', 'IMS_read_le_uint64_t', H, 'read_le', None, 'uint64_t IMS_read_le_uint64_t(IMS* this)', 'IMS_READ_N_CONTRACT(8)',
                                           'IMS* s; IMS_read_le_uint64_t(s);', uses=('read_u64',), rules='rule: read<T>\\(\\) ==> IMS_read_uint64_t(this)')))
    U.append(('ims_pointer', unit('ims_pointer', 'IMS_pointer', H, 'pointer', None, 'const uint8_t* IMS_pointer(const IMS* this)', 'IMS_POINTER_CONTRACT', 'IMS* s; IMS_pointer(s);')))
    U.append(('ims_size', unit('ims_size', 'IMS_size', H, 'size', 'size_t size() const', 'size_t IMS_size(const IMS* this)', 'IMS_SIZE_CONTRACT', 'IMS* s; IMS_size(s);')))
    U.append(('ims_size_set', unit('ims_size_set', 'IMS_size_set', H, 'size', 'size_t new_size', 'void IMS_size_set(IMS* this, size_t new_size)', 'IMS_SIZE_SET_CONTRACT', 'IMS* s; size_t n; IMS_size_set(s, n);')))
    U.append(('ims_bool', unit('ims_bool', 'IMS_bool', H, 'operator bool', None, '_Bool IMS_bool(const IMS* this)', 'IMS_BOOL_CONTRACT', 'IMS* s; IMS_bool(s);')))
    paths = []
    for n, text in U:
        p = os.path.join(outdir, 'cursor_%s.unit' % n)
        with open(p, 'w') as f:
            f.write(text)
        paths.append(p)
    return paths
