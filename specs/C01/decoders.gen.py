"""C01: typed option decoders `T T::from_option(const option& opt)`: read only [data_ptr, data_ptr+data_size), throw only
libtins exceptions, terminate. One template; the decoded value object is not modelled (every store into `output` becomes an
evaluation of the stored expression), so the obligations are exactly the reads and the ranges handed to containers."""
import os
import re
import sys
sys.path.insert(0, os.path.dirname(os.path.dirname(os.path.dirname(os.path.abspath(__file__)))))
from vf import cxx  # noqa: E402

T = r'''#! unit: decoder.%(lc)s
#! property: C01
#! mode: proof
#! entry: h
#! enforce: decode
#! replace: IMS_skip IMS_can_read IMS_read_obj IMS_read_buf IMS_read_uint8_t IMS_read_uint16_t IMS_read_uint32_t IMS_read_uint64_t IMS_read_be_uint16_t IMS_read_be_uint32_t IMS_read_be_uint64_t IMS_read_le_uint16_t IMS_read_le_uint32_t IMS_pointer IMS_size IMS_bool IMS_read_v6 IMS_read_v4 IMS_read_hw6 tins_string_range tins_range_val Internals_option2class_option_data
#! allow-exc: malformed_option option_not_found malformed_packet
#! anchors: %(qual)s (%(src)s)
#! assumed: the decoded value object is not modelled: stores into it are evaluations of the stored expression; container assign/insert copy [first,last) (stub: the range must be readable)
#! replay: c01_decoders
//@ include lib/endian.h
//@ include lib/ims.h
//@ include lib/opt.h
typedef struct { uint8_t b[16]; } V6; typedef struct { uint8_t b[6]; } HW6v;
V6 IMS_read_v6(IMS* this) IMS_READ_N_CONTRACT(16);           /* read<IPv6Address>(): can_read(16) + copy + skip(16) */
uint32_t IMS_read_v4(IMS* this) IMS_READ_N_CONTRACT(4);      /* read<IPv4Address>() */
HW6v IMS_read_hw6(IMS* this) IMS_READ_N_CONTRACT(6);         /* read<HWAddress<6>>() */
void tins_string_range(const uint8_t* first, const uint8_t* last)
__CPROVER_requires(__CPROVER_same_object(first, last) && __CPROVER_POINTER_OFFSET(first) <= __CPROVER_POINTER_OFFSET(last))
__CPROVER_requires(__CPROVER_r_ok(first, __CPROVER_POINTER_OFFSET(last) - __CPROVER_POINTER_OFFSET(first)))
__CPROVER_assigns()
;
int tins_range_val(const uint8_t* first, const uint8_t* last)    /* a container constructed from [first,last) used as a value */
__CPROVER_requires(__CPROVER_same_object(first, last) && __CPROVER_POINTER_OFFSET(first) <= __CPROVER_POINTER_OFFSET(last))
__CPROVER_requires(__CPROVER_r_ok(first, __CPROVER_POINTER_OFFSET(last) - __CPROVER_POINTER_OFFSET(first)))
__CPROVER_assigns()
;
int Internals_option2class_option_data(const uint8_t* ptr, uint32_t total_sz)   /* verified in decoder.dhcpv6_option2class_option_data */
__CPROVER_requires(__CPROVER_r_ok(ptr, total_sz))
__CPROVER_assigns()
;
#define TINS_USE(...) ((void)0, (void)(__VA_ARGS__))
%(predecl)s
//@ func %(src)s %(qual)s %(match)s
sig: void decode(const OPT* opt)
ptrobj: opt=OPT
%(rules)s
## generic, optional lowering of the decoded-value stores (R6)
rule?: \b\w+_type output\(([^;]*)\); ==> TINS_USE(\1);
rule?: (?<!return )\b[\w:]+(?:<[\w:,\s]+>)? output; ==> /* output */
rule?: IMS_read_(?:ICMPv6_|DHCPv6_|Dot11_)?ipaddress_type\(&stream\) ==> IMS_read_v6(&stream)
rule?: IMS_read_IPv6Address\(&stream\) ==> IMS_read_v6(&stream)
rule?: IMS_read_IPv4Address\(&stream\) ==> IMS_read_v4(&stream)
rule?: IMS_read_(?:address_type|HWAddress_6_|hwaddress_type)\(&stream\) ==> IMS_read_hw6(&stream)
rule?: IMS_read_obj\(&stream, &\(output\.(\w+)\), sizeof\(output\.\w+\)\) ==> IMS_skip(&stream, SIZEOF_\1)
rule?: IMS_read_buf\(&stream, output\.\w+, ([^;]*)\); ==> IMS_skip(&stream, \1);
rule?: sizeof\(output\.(\w+)\) ==> SIZEOF_\1
rule?: output(?:\.\w+)+\.(?:assign|insert)\(\s*(?:output(?:\.\w+)+\.end\(\),\s*)? ==> tins_string_range(
rule?: output(?:\.\w+)+\.push_back\( ==> TINS_USE(
rule?: output(?:\.\w+)+(?:\[[^\]]*\])? = ([^;]*); ==> TINS_USE(\1);
rule?: \btypedef [^;]*; ==>
rule?: \bserialization_type\( ==> tins_range_val(
rule?: return output; ==> return;
rule?: return \w+_type\(([^;]*)\); ==> TINS_USE(\1); return;
contract:
__CPROVER_requires(__CPROVER_is_fresh(opt, sizeof(OPT)) && opt->real_size_ <= 65535 && __CPROVER_is_fresh(opt->data_, opt->real_size_))
__CPROVER_assigns()
end
%(loops)s
//@ endfunc
void h(void) { const OPT* o; decode(o); TINS_REACH("post"); }
'''
STREAM_LOOP = '''loop %d:
__CPROVER_assigns(stream%s)
__CPROVER_loop_invariant(__CPROVER_same_object(stream.buffer_, opt->data_) && __CPROVER_POINTER_OFFSET(stream.buffer_) >= 0 && __CPROVER_POINTER_OFFSET(stream.buffer_) <= opt->real_size_ && stream.size_ <= opt->real_size_ && __CPROVER_POINTER_OFFSET(stream.buffer_) + stream.size_ <= opt->real_size_)
__CPROVER_decreases(stream.size_)
end'''
SZ = '#define SIZEOF_reserved 6\n#define SIZEOF_key_hash 16\n#define SIZEOF_address 16\n#define SIZEOF_prefix 16\n'
V6SZ = 'enum { ipaddress_type_address_size = 16 };\n'
ICMP6 = 'src/icmpv6.cpp'
D = []
for name, extra in [('addr_list_type', dict(loops=STREAM_LOOP % (0, ''))), ('naack_type', {}), ('lladdr_type', {}), ('prefix_info_type', {}), ('rsa_sign_type', {}),
                    ('ip_prefix_type', {}), ('map_type', {}), ('route_info_type', {}), ('recursive_dns_type', dict(loops=STREAM_LOOP % (0, ''))),
                    ('handover_key_req_type', {}), ('handover_key_reply_type', {}), ('handover_assist_info_type', {}), ('mobile_node_id_type', {}),
                    ('timestamp_type', {}), ('shortcut_limit_type', {}), ('new_advert_interval_type', {})]:
    D.append(dict(src=ICMP6, qual='ICMPv6::%s::from_option' % name, lc='icmpv6_' + name, predecl=SZ,
                  rules='rule?: (?:ICMPv6::)?ipaddress_type::address_size ==> 16', **extra))

DH = 'src/dhcpv6.cpp'
for name in ['ia_na_type', 'ia_ta_type', 'ia_address_type', 'authentication_type', 'status_code_type', 'vendor_info_type', 'vendor_class_type', 'duid_type', 'user_class_type']:
    D.append(dict(src=DH, qual='DHCPv6::%s::from_option' % name, lc='dhcpv6_' + name, predecl=SZ,
                  rules='rule?: (?:DHCPv6::)?ipaddress_type::address_size ==> 16'))

PTR_LOOP = "loop 0:\n__CPROVER_assigns(ptr)\n__CPROVER_loop_invariant(__CPROVER_same_object(ptr, opt->data_) && __CPROVER_POINTER_OFFSET(ptr) >= 0 && __CPROVER_POINTER_OFFSET(ptr) <= opt->real_size_)\n__CPROVER_decreases(opt->real_size_ - __CPROVER_POINTER_OFFSET(ptr))\nend"
DM = 'src/dot11/dot11_mgmt.cpp'
for name, extra in [('fh_params_set', {}), ('cf_params_set', {}), ('ibss_dfs_params', dict(loops=PTR_LOOP, rules='rule: ibss_dfs_params::minimum_size ==> 7 /* address_type::address_size + sizeof(uint8_t) (dot11_mgmt.h) */\nrule: output\\.dfs_owner = ptr;\\s*ptr \\+= output\\.dfs_owner\\.size\\(\\); ==> tins_string_range(ptr, ptr + 6); ptr += 6; /* HWAddress<6>(const uint8_t*) copies 6 bytes; size() == 6 */\nrule: make_pair\\(first, \\*\\(ptr\\+\\+\\)\\) ==> first, *(ptr++)')),
                    ('country_params', dict(loops=PTR_LOOP, rules='rule: country_params::minimum_size ==> 6 /* 3 + 3 (dot11_mgmt.h) */\nrule: \\bcopy\\(ptr, ptr \\+ 3, back_inserter\\(output\\.country\\)\\);\\s*ptr \\+= output\\.country\\.size\\(\\); ==> tins_string_range(ptr, ptr + 3); ptr += 3; /* country has the 3 bytes just appended */')),
                    ('fh_pattern_type', dict(rules='rule: fh_pattern_type::minimum_size ==> 4')), ('channel_switch_type', {}), ('quiet_type', {}), ('bss_load_type', {}), ('tim_type', {})]:
    d = dict(src=DM, qual='Dot11ManagementFrame::%s::from_option' % name, lc='dot11_' + name, predecl=SZ)
    d.update(extra)
    D.append(d)
D.append(dict(src='src/ip.cpp', qual='IP::security_type::from_option', lc='ip_security_type', predecl=SZ))
D.append(dict(src='src/ip.cpp', qual='IP::generic_route_option_type::from_option', lc='ip_generic_route_option_type', predecl=SZ,
              loops="loop 0:\n__CPROVER_assigns(route, uint32_t_buffer)\n__CPROVER_loop_invariant(__CPROVER_same_object(route, opt->data_) && __CPROVER_POINTER_OFFSET(route) >= 1 && __CPROVER_POINTER_OFFSET(route) <= opt->real_size_ && (opt->real_size_ - __CPROVER_POINTER_OFFSET(route)) % 4 == 0)\n__CPROVER_decreases(opt->real_size_ - __CPROVER_POINTER_OFFSET(route))\nend",
              rules='rule: address_type\\(uint32_t_buffer\\) ==> uint32_t_buffer'))
D.append(dict(src='src/pppoe.cpp', qual='PPPoE::vendor_spec_type::from_option', lc='pppoe_vendor_spec_type', predecl=SZ))


def generate(outdir, tier):
    paths = []
    for e in D:
        d = dict(match='', rules='', loops='', predecl='')
        d.update(e)
        # the qualified name has three components: locate by the last two
        p = os.path.join(outdir, 'decoder_%s.unit' % e['lc'])
        with open(p, 'w') as f:
            f.write(T % d)
        paths.append(p)
    return paths
