"""C01: the 802.11 construct-from-buffer bodies (src/dot11/*.cpp). They all have the shape
   Base(buffer, total_sz) ... InputMemoryStream stream(buffer, total_sz); stream.skip(<size of the part the base read>);
   stream.read(<own fields>); [parse_tagged_parameters(stream) | inner_pdu(new RawPDU/SNAP(...))]
so one template is instantiated per class from the table below; bodies are extracted from /repo each run.  The base-class
constructor is its own unit (it reads through its own cursor); the size helpers (management_frame_size(), controlta_size(),
Dot11Data::header_size(), Dot11::header_size()) are replaced by an arbitrary value: the cursor's skip() checks it."""
import os

T = '''#! unit: dot11.%(lc)s_ctor
#! property: C01
#! mode: proof
#! entry: h_ctor
#! enforce: %(cls)s_ctor
#! replace: IMS_skip IMS_can_read IMS_read_obj IMS_read_uint8_t IMS_pointer IMS_size IMS_bool PDU_set_inner new_RawPDU new_SNAP tins_add_option_sized Dot11_parse_tagged_parameters D11_size_helper D11_flag D11_init
#! anchors: %(qual)s (%(src)s)%(xanch)s
#! assumed: cursor methods by their contracts (cursor.* units); the base class constructor by its own unit; size helpers return an arbitrary value (the cursor checks it); header flag getters (from_ds/to_ds/wep) return an arbitrary bit; parse_tagged_parameters by the contract proved in dot11.parse_tagged_parameters
#! replay: c01_parse
//@ include lib/endian.h
//@ include lib/pdu.h
//@ include lib/ims.h
//@ include lib/pdu_parse.h
PDU* new_SNAP(const uint8_t* ptr, uint32_t n)
__CPROVER_requires(__CPROVER_r_ok(ptr, n))
__CPROVER_assigns()
__CPROVER_ensures(__CPROVER_is_fresh(__CPROVER_return_value, sizeof(PDU)))
;
uint32_t D11_size_helper(void) __CPROVER_requires(1) __CPROVER_assigns() __CPROVER_ensures(1);
_Bool D11_flag(void) __CPROVER_requires(1) __CPROVER_assigns() __CPROVER_ensures(1);
uint32_t D11_init(const uint8_t* buffer, uint32_t total_sz) __CPROVER_requires(__CPROVER_r_ok(buffer, total_sz)) __CPROVER_assigns();   /* Dot11Data::init: dot11.data_init unit */
#define DOT11_TAGGED_CONTRACT \\
  __CPROVER_requires(IMS_PRE(stream)) \\
  DOT11_TAGGED_CONTRACT_POST
#define DOT11_TAGGED_CONTRACT_POST \\
  __CPROVER_assigns(*stream) \\
  __CPROVER_ensures(__CPROVER_same_object(stream->buffer_, __CPROVER_old(stream->buffer_)) && stream->size_ <= __CPROVER_old(stream->size_) && __CPROVER_POINTER_OFFSET(stream->buffer_) - __CPROVER_POINTER_OFFSET(__CPROVER_old(stream->buffer_)) == __CPROVER_old(stream->size_) - stream->size_) \\
  __CPROVER_ensures(IMS_VALID(stream))
%(tagged_decl)s
typedef struct { uint8_t b[6]; } HW6v;
typedef uint16_t capability_information;   /* packed class of sixteen 1-bit fields = 2 octets (dot11_mgmt.h); its accessors are C15's */
%(structs)s
typedef struct { PDU_BASE; uint32_t options_size_; %(members)s } %(cls)s;
%(prefuncs)s
//@ func %(src)s %(qual)s %(match)s
sig: %(sig)s
class: %(cls)s %(hdr)s
members: options_size_ %(memberlist)s
%(inits)s
rule?: %(cls)s_management_frame_size\\(this\\)|\\bmanagement_frame_size\\(\\) ==> D11_size_helper()
rule?: %(cls)s_controlta_size\\(this\\)|\\bcontrolta_size\\(\\) ==> D11_size_helper()
rule?: Dot11Data::header_size\\(\\)|Dot11::header_size\\(\\) ==> D11_size_helper()
rule?: sizeof\\(dot11_header\\) ==> 10 /* sizeof(dot11_header): control(2) duration(2) addr1(6), packed (dot11_base.h) */
rule?: (?:%(cls)s_)?(from_ds|to_ds|wep)\\((?:this)?\\) ==> D11_flag()
rule?: (?:%(cls)s_)?parse_tagged_parameters\\((?:this, )?stream\\) ==> Dot11_parse_tagged_parameters(&stream)
rule?: (?:%(cls)s_)?init\\((?:this, )?buffer, total_sz\\) ==> D11_init(buffer, total_sz)
rule?: new Tins::(\\w+)\\( ==> new_\\1(
%(rules)s
contract:
%(contract)s
end
%(loops)s
%(mutant)s
//@ endfunc
void h_ctor(void) {
  %(harness)s
  TINS_REACH("post");
}
'''
CTOR_CONTRACT = '__CPROVER_requires(total_sz <= 65535 && __CPROVER_is_fresh(buffer, total_sz))\n__CPROVER_requires(__CPROVER_is_fresh(this, sizeof(*this)))\n__CPROVER_assigns(*this)'
BASEH = 'include/tins/dot11/dot11_base.h'


def entry(cls, src, hdr, members='', memberlist='', structs=(), mutant='', extra_match='const uint8_t* buffer, uint32_t total_sz)'):
    return dict(cls=cls, lc=cls.lower(), src=src, hdr=hdr, qual='%s::%s' % (cls, cls), match='match "%s"' % extra_match,
                sig='void %s_ctor(%s* this, const uint8_t* buffer, uint32_t total_sz)' % (cls, cls),
                members=members, memberlist=memberlist, inits='inits: lower', rules='', loops='', mutant=mutant, prefuncs='',
                structs='\n'.join('//@ struct %s %s' % (h, s) for h, s in structs), contract=CTOR_CONTRACT, xanch='',
                tagged_decl='void Dot11_parse_tagged_parameters(IMS* stream) DOT11_TAGGED_CONTRACT;',
                harness='%s* t; const uint8_t* b; uint32_t n; %s_ctor(t, b, n);' % (cls, cls))


A = 'src/dot11/dot11_assoc.cpp'
AH = 'include/tins/dot11/dot11_assoc.h'
TABLE = [
 entry('Dot11', 'src/dot11/dot11_base.cpp', BASEH, 'dot11_header header_;', 'header_', [(BASEH, 'dot11_header')]),
 entry('Dot11ManagementFrame', 'src/dot11/dot11_mgmt.cpp', 'include/tins/dot11/dot11_mgmt.h', 'dot11_extended_header ext_header_; HW6v addr4_;', 'ext_header_ addr4_',
       [('include/tins/dot11/dot11_mgmt.h', 'dot11_extended_header')]),
 entry('Dot11Disassoc', A, AH, 'dot11_disassoc_body body_;', 'body_', [(AH, 'dot11_disassoc_body')]),
 entry('Dot11AssocRequest', A, AH, 'dot11_assoc_request_body body_;', 'body_', [(AH, 'dot11_assoc_request_body')]),
 entry('Dot11AssocResponse', A, AH, 'dot11_assoc_response_body body_;', 'body_', [(AH, 'dot11_assoc_response_body')]),
 entry('Dot11ReAssocRequest', A, AH, 'dot11_reassoc_request_body body_;', 'body_', [(AH, 'dot11_reassoc_request_body')]),
 entry('Dot11ReAssocResponse', A, AH, 'dot11_reassoc_response_body body_;', 'body_', [(AH, 'dot11_reassoc_response_body')]),
 entry('Dot11Authentication', 'src/dot11/dot11_auth.cpp', 'include/tins/dot11/dot11_auth.h', 'dot11_auth_body body_;', 'body_', [('include/tins/dot11/dot11_auth.h', 'dot11_auth_body')]),
 entry('Dot11Deauthentication', 'src/dot11/dot11_auth.cpp', 'include/tins/dot11/dot11_auth.h', 'dot11_deauth_body body_;', 'body_', [('include/tins/dot11/dot11_auth.h', 'dot11_deauth_body')]),
 entry('Dot11Beacon', 'src/dot11/dot11_beacon.cpp', 'include/tins/dot11/dot11_beacon.h', 'dot11_beacon_body body_;', 'body_', [('include/tins/dot11/dot11_beacon.h', 'dot11_beacon_body')]),
 entry('Dot11ProbeRequest', 'src/dot11/dot11_probe.cpp', 'include/tins/dot11/dot11_probe.h'),
 entry('Dot11ProbeResponse', 'src/dot11/dot11_probe.cpp', 'include/tins/dot11/dot11_probe.h', 'dot11_probe_response_header body_;', 'body_', [('include/tins/dot11/dot11_probe.h', 'dot11_probe_response_header')]),
 entry('Dot11ControlTA', 'src/dot11/dot11_control.cpp', 'include/tins/dot11/dot11_control.h', 'HW6v taddr_;', 'taddr_'),
 entry('Dot11BlockAckRequest', 'src/dot11/dot11_control.cpp', 'include/tins/dot11/dot11_control.h', 'uint16_t bar_control_; uint16_t start_sequence_;', 'bar_control_ start_sequence_'),
 entry('Dot11BlockAck', 'src/dot11/dot11_control.cpp', 'include/tins/dot11/dot11_control.h', 'uint16_t bar_control_, start_sequence_; uint8_t bitmap_[8];', 'bar_control_ start_sequence_ bitmap_'),
 entry('Dot11Data', 'src/dot11/dot11_data.cpp', 'include/tins/dot11/dot11_data.h', 'dot11_extended_header ext_header_; HW6v addr4_;', 'ext_header_ addr4_',
       [('include/tins/dot11/dot11_data.h', 'dot11_extended_header')]),
 entry('Dot11QoSData', 'src/dot11/dot11_data.cpp', 'include/tins/dot11/dot11_data.h', 'uint16_t qos_control_;', 'qos_control_'),
]
# Dot11Data::init (reads the extended header, optionally addr4) and Dot11::parse_tagged_parameters (loop)
INIT = entry('Dot11Data', 'src/dot11/dot11_data.cpp', 'include/tins/dot11/dot11_data.h', 'dot11_extended_header ext_header_; HW6v addr4_;', 'ext_header_ addr4_',
             [('include/tins/dot11/dot11_data.h', 'dot11_extended_header')])
INIT.update(lc='data_init', qual='Dot11Data::init', match='', sig='uint32_t Dot11Data_init(Dot11Data* this, const uint8_t* buffer, uint32_t total_sz)', inits='',
            contract=CTOR_CONTRACT + '\n__CPROVER_ensures(__CPROVER_return_value <= total_sz)', harness='Dot11Data* t; const uint8_t* b; uint32_t n; Dot11Data_init(t, b, n);')
TAG = entry('Dot11', 'src/dot11/dot11_base.cpp', BASEH, '', '')
TAG.update(lc='parse_tagged_parameters', qual='Dot11::parse_tagged_parameters', match='', sig='void Dot11_parse_tagged_parameters(Dot11* this, IMS* stream)', inits='', tagged_decl='',
           rules='ptrobj: stream=IMS\nrule: Dot11_add_tagged_option\\(this, opcode, length, IMS_pointer\\(stream\\)\\); ==> tins_add_option_sized(opcode, length, IMS_pointer(stream));\nrule: \\bOptionTypes opcode ==> int opcode\nrule?: \\(\\(OptionTypes\\)\\((.*?)\\)\\); ==> (int)(\\1);',
           contract='__CPROVER_requires(__CPROVER_is_fresh(this, sizeof(*this)))\n__CPROVER_requires(__CPROVER_is_fresh(stream, sizeof(IMS)) && stream->size_ <= 65535 && __CPROVER_is_fresh(stream->buffer_, stream->size_))\nDOT11_TAGGED_CONTRACT_POST',
           loops='loop 0:\n__CPROVER_assigns(*stream)\n__CPROVER_loop_invariant(__CPROVER_same_object(stream->buffer_, __CPROVER_loop_entry(stream->buffer_)) && stream->size_ <= __CPROVER_loop_entry(stream->size_) && __CPROVER_POINTER_OFFSET(stream->buffer_) - __CPROVER_POINTER_OFFSET(__CPROVER_loop_entry(stream->buffer_)) == __CPROVER_loop_entry(stream->size_) - stream->size_)\n__CPROVER_decreases(stream->size_)\nend',
           mutant='mutant: if \\(!stream\\.can_read\\(length\\)\\) \\{\\s*throw malformed_packet\\(\\);\\s*\\} ==> ',
           harness='Dot11* t; IMS* s; Dot11_parse_tagged_parameters(t, s);')


def generate(outdir, tier):
    paths = []
    for e in TABLE + [INIT, TAG]:
        d = dict(e)
        if d['lc'] not in ('data_init', 'parse_tagged_parameters'):
            d['lc'] = d['cls'].lower()
        p = os.path.join(outdir, 'dot11_%s.unit' % d['lc'])
        text = T % d
        if d['lc'] in ('data_init', 'parse_tagged_parameters'):
            text = text.replace('#! unit: dot11.%s_ctor' % d['lc'], '#! unit: dot11.%s' % d['lc']).replace('#! enforce: %s_ctor' % d['cls'], '#! enforce: %s' % d['sig'].split('(')[0].split()[-1])
            if d['lc'] == 'parse_tagged_parameters':
                text = text.replace(' Dot11_parse_tagged_parameters D11_size_helper', ' D11_size_helper')
        with open(p, 'w') as f:
            f.write(text)
        paths.append(p)
    return paths
