"""C01 (supporting static fact, not a deductive proof): the exception kinds a buffer constructor can raise, read off the source.

For every `K::K(const uint8_t*, uint32_t)` in src/**/*.cpp the `throw X(...)` statements of its body and of the functions of the
same file it calls (two levels, by name) are collected after the library's own preprocessing; a kind that the function itself
catches is dropped.  The property allows one kind: malformed_packet.  The deductive units decide this per function under contract
(`allow-exc`); this scan covers the constructors whose bodies the extractor cannot lower after a rewrite (seed C01-4: a helper
with its own exception kind called from IPv6's constructor) and the ones not under contract.  One obligation per constructor
is emitted into a C unit so that the usual reporting applies."""
import glob
import os
import re

REPO = os.environ.get('VERIF_REPO', '/repo')


def _strip(t):
    t = re.sub(r'/\*.*?\*/', '', t, flags=re.S)
    return re.sub(r'//[^\n]*', '', t)


def _match_brace(t, i):
    d = 0
    for k in range(i, len(t)):
        if t[k] == '{':
            d += 1
        elif t[k] == '}':
            d -= 1
            if d == 0:
                return k
    return len(t) - 1


def scan():
    from vf import cxx
    funcs, byname = {}, {}
    for f in sorted(glob.glob(os.path.join(REPO, 'src', '**', '*.cpp'), recursive=True)):
        raw = open(f, errors='replace').read()
        body_txt = re.sub(r'(?m)^\s*#\s*include[^\n]*\n', '\n', raw)       # keep the text, drop the includes, resolve #if with libtins' macros
        t = _strip(cxx.preprocess(body_txt))
        rel = os.path.relpath(f, REPO)
        for m in re.finditer(r'(?m)^[\w:<>\*&\s,]*?\b((?:\w+::)*\w+)\s*\(([^;{}()]*(?:\([^()]*\)[^;{}()]*)*)\)\s*(?:const\s*)?(?::[^{;]*)?\{', t):
            name = m.group(1)
            if name in ('if', 'while', 'for', 'switch', 'catch'):
                continue
            e = _match_brace(t, m.end() - 1)
            body = t[m.end():e]
            funcs[(rel, name, m.group(2).strip())] = body
            byname.setdefault(name.split('::')[-1], []).append((rel, name, body))

    def kinds(body, file, depth, seen):
        ks = set(m.group(1).split('::')[-1] for m in re.finditer(r'\bthrow\s+([\w:]+)\s*\(', body))
        caught = set(m.group(1).split('::')[-1] for m in re.finditer(r'catch\s*\(\s*(?:const\s+)?([\w:]+)', body))
        if depth > 0:
            for cm in re.finditer(r'(?<![\w.>:])(\w+)\s*\(', body):
                for (f2, q, b2) in byname.get(cm.group(1), []):
                    if f2 != file or (f2, q) in seen:
                        continue
                    sub = kinds(b2, f2, depth - 1, seen | {(f2, q)})
                    ks |= set(k for k in sub if k not in caught and 'exception_base' not in caught)
        return ks

    rows = []
    for (f, name, params), body in sorted(funcs.items()):
        parts = name.split('::')
        if len(parts) >= 2 and parts[-1] == parts[-2] and re.search(r'const\s+uint8_t\s*\*\s*\w+\s*,\s*uint32_t', params):
            rows.append((f, name, sorted(kinds(body, f, 2, {(f, name)}))))
    return rows


def generate(outdir, tier):
    rows = scan()
    lines = ['#! unit: c01.exception_kinds', '#! property: C01', '#! mode: proof', '#! pipeline: plain', '#! entry: h',
             '#! anchors: the buffer constructors of src/**/*.cpp: ' + ', '.join(sorted(set(r[1] for r in rows))),
             '#! assumed: a textual scan by specs/C01/exception_kinds.gen.py, not the verifier: `throw` statements of the constructor and of same-file functions it calls by name (two levels) after preprocessing with libtins\' macros; kinds raised by callees in other files (child-layer constructors, cursor methods: both under contract elsewhere) and by the standard library are not seen; locally caught kinds are dropped by name',
             'void h(void) {']
    for f, name, ks in rows:
        bad = [k for k in ks if k != 'malformed_packet']
        msg = ('%s (%s) can raise: %s' % (name, f, ', '.join(ks) if ks else 'nothing of its own')).replace('"', "'")
        lines.append('  __CPROVER_assert(%d, "a buffer constructor raises no exception kind other than malformed_packet: %s");' % (0 if bad else 1, msg))
    lines.append('  __CPROVER_assert(%d >= 40, "the scan found the constructors (at least 40)");' % len(rows))
    lines.append('  TINS_REACH("post");\n}')
    p = os.path.join(outdir, 'exception_kinds.unit')
    with open(p, 'w') as fo:
        fo.write('\n'.join(lines) + '\n')
    return [p]
