"""radiotap.parser_walk from its template, one unit per exact options-buffer length (an exact-size block per unit keeps CBMC's
byte operations cheap; a symbolic length did not finish).  quick: 0,3,4,6,8,12 octets; thorough adds 1,2,5,7,9,10,11,13,16."""
import os

QUICK = [0, 3, 4, 6, 8, 12]
A = 'RadioTapParser_advance_to_next_field.L0 RadioTapParser_advance_to_next_namespace.L0 RadioTapParser_find_options_start.L0 RadioTapParser_skip_to_field.L0'
# REACH tags that cannot be reached with so short a buffer (empty: nothing to walk; 1..3 octets: the constructor throws, so
# not even `post`; 4..7: a single present word, so no second namespace; 4: no room for a field behind the present word)
UNREACH = {0: A, 1: A + ' post', 2: A + ' post', 3: A + ' post', 4: 'RadioTapParser_advance_to_next_namespace.L0 RadioTapParser_skip_to_field.L0',
           5: 'RadioTapParser_advance_to_next_namespace.L0', 6: 'RadioTapParser_advance_to_next_namespace.L0', 7: 'RadioTapParser_advance_to_next_namespace.L0'}
MORE = [1, 2, 5, 7, 9, 10, 11, 13, 16]


def generate(outdir, tier):
    t = open(os.path.join(os.path.dirname(os.path.abspath(__file__)), 'radiotap_parser.tmpl')).read()
    paths = []
    for n in QUICK + (MORE if tier == 'thorough' else []):
        u = t.replace('#! define: NBYTES=12', '#! define: NBYTES=%d' % n).replace('#! unit: radiotap.parser_walk', '#! unit: radiotap.parser_walk_%d' % n)
        u = u.replace('options buffers of at most 12 octets, every content (up to 3 present words)', 'options buffers of exactly %d octets, every content' % n)
        if n < 8:
            # short buffers: the constructor rejects them or only some loops can run; which REACH tags are dead is listed here
            u = u.replace('#! objbits: 10', '#! objbits: 10\n#! unreach: ' + UNREACH.get(n, ''))
        if n > 12:
            u = u.replace('--unwind 5 ', '--unwind 7 ').replace('WB(8) WB(9) WB(10) WB(11) ', 'WB(8) WB(9) WB(10) WB(11) WB(12) WB(13) WB(14) WB(15) ')
        p = os.path.join(outdir, 'radiotap_parser_%d.unit' % n)
        with open(p, 'w') as f:
            f.write(u)
        paths.append(p)
    return paths
