"""C01: constructors of the form `InputMemoryStream stream(buffer,total_sz); stream.read(header_); ... dispatch`.
One spec template, instantiated from the table below; the bodies are extracted from /repo each run."""
import os

T = '''#! unit: %(lc)s.ctor
#! property: C01
#! mode: proof
#! entry: h_ctor
#! enforce: %(cls)s_ctor
#! replace: IMS_skip IMS_can_read IMS_read_obj IMS_read_buf IMS_read_vec IMS_read_uint8_t IMS_read_uint16_t IMS_read_uint32_t IMS_read_be_uint16_t IMS_read_be_uint32_t IMS_read_le_uint16_t IMS_read_le_uint32_t IMS_pointer IMS_size IMS_size_set IMS_bool PDU_set_inner tins_add_option_range tins_add_option_sized tins_add_option_empty %(xreplace)s Internals_pdu_from_flag Internals_pdu_from_flag4 Internals_pdu_from_dlt_flag %(news)s
#! anchors: %(cls)s::%(cls)s(const uint8_t*, uint32_t) (%(src)s)%(anch)s
#! assumed: cursor methods by their contracts (cursor.* units); construction of the next layer by a stub contract (the range handed over must be readable)
#! replay: c01_parse
%(hdrx)s
//@ include lib/endian.h
//@ include lib/pdu.h
//@ include lib/ims.h
//@ include lib/pdu_parse.h
//@ enum include/tins/pdu.h PDUType prefix PT_
PDU* Internals_pdu_from_dlt_flag(uint32_t flag, const uint8_t* buffer, uint32_t size)
__CPROVER_requires(__CPROVER_r_ok(buffer, size))
__CPROVER_assigns()
__CPROVER_ensures(__CPROVER_return_value == NULL || __CPROVER_is_fresh(__CPROVER_return_value, sizeof(PDU)))
;
%(newdecls)s
%(predecl)s
%(structs)s
typedef struct { PDU_BASE; %(members)s } %(cls)s;
%(funcs)s
//@ func %(src)s %(cls)s::%(cls)s match "%(ctor_match)s"
sig: void %(cls)s_ctor(%(cls)s* this, const uint8_t* buffer, uint32_t total_sz%(extra_params)s)
class: %(cls)s %(hdr)s
%(memberlist)s
%(inits)s
%(rules)s
contract:
__CPROVER_requires(total_sz <= 65535 && __CPROVER_is_fresh(buffer, total_sz))
__CPROVER_requires(__CPROVER_is_fresh(this, sizeof(*this)))
__CPROVER_assigns(*this)
%(post)s
end
%(loops)s
%(mutant)s
//@ endfunc
void h_ctor(void) {
  %(cls)s* t; const uint8_t* b; uint32_t n; %(extra_decl)s
  %(cls)s_ctor(t, b, n%(extra_args)s);
  TINS_REACH("post");
}
'''

NEW = '''PDU* new_%s(const uint8_t* ptr, uint32_t n)
__CPROVER_requires(__CPROVER_r_ok(ptr, n))
__CPROVER_assigns()
__CPROVER_ensures(__CPROVER_is_fresh(__CPROVER_return_value, sizeof(PDU)))
;'''


def getter(cls, hdr, name, ret, where=None):
    return ('//@ func %s %s::%s match "%s() const"\nsig: static %s %s_%s(const %s* this)\nclass: %s %s\n//@ endfunc'
            % (where or hdr, cls, name, name, ret, cls, name, cls, cls, hdr))


TABLE = [
 dict(cls='UDP', src='src/udp.cpp', hdr='include/tins/udp.h', structs=['udp_header'], members='udp_header header_;', news=['RawPDU'],
      mutant='mutant: stream\\.size\\(\\)\\)\\); ==> stream.size() + 1));'),
 dict(cls='EthernetII', src='src/ethernetII.cpp', hdr='include/tins/ethernetII.h', structs=['ethernet_header'], members='ethernet_header header_;',
      funcs=[('payload_type', 'uint16_t')]),
 dict(cls='Dot3', src='src/dot3.cpp', hdr='include/tins/dot3.h', structs=['dot3_header'], members='dot3_header header_;', news=['LLC']),
 dict(cls='SNAP', src='src/snap.cpp', hdr='include/tins/snap.h', structs=['snap_header'], members='snap_header snap_;', funcs=[('eth_type', 'uint16_t')]),
 dict(cls='Dot1Q', src='src/dot1q.cpp', hdr='include/tins/dot1q.h', structs=['dot1q_header'], members='dot1q_header header_; _Bool append_padding_;',
      funcs=[('payload_type', 'uint16_t')], inits='inits: lower'),
 dict(cls='MPLS', src='src/mpls.cpp', hdr='include/tins/mpls.h', structs=['mpls_header'], members='mpls_header header_;', news=['IP', 'IPv6', 'RawPDU', 'MPLS'],
      funcs=[('bottom_of_stack', 'uint8_t')], mutant='mutant: if \\(stream\\) \\{ ==> {'),
 dict(cls='SLL', src='src/sll.cpp', hdr='include/tins/sll.h', structs=['sll_header'], members='sll_header header_;', funcs=[('protocol', 'uint16_t')]),
 dict(cls='Loopback', src='src/loopback.cpp', hdr='include/tins/loopback.h', structs=[], members='uint32_t family_;', news=['IP', 'IPv6', 'LLC', 'RawPDU'],
      rules='rule?: \\bPF_INET6\\b ==> 10\nrule?: \\bPF_INET\\b ==> 2\nrule?: \\bPF_LLC\\b ==> 26'),
 dict(cls='ARP', src='src/arp.cpp', hdr='include/tins/arp.h', structs=['arp_header'], members='arp_header header_;', news=['RawPDU']),
 dict(cls='STP', src='src/stp.cpp', hdr='include/tins/stp.h', structs=['pvt_bpdu_id', 'stp_header'], members='stp_header header_;', unreach=''),
 dict(cls='VXLAN', src='src/vxlan.cpp', hdr='include/tins/vxlan.h', structs=['vxlan_header'], members='vxlan_header header_;'),
 dict(cls='PKTAP', src='src/pktap.cpp', hdr='include/tins/pktap.h', structs=['pktap_header'], members='pktap_header header_;',
      mutant='mutant: stream\\.size\\(\\)\\s*\\) ==> stream.size() + 1)'),
]


STREAM_INV = 'loop %d:\n__CPROVER_assigns(stream%s)\n__CPROVER_loop_invariant(__CPROVER_same_object(stream.buffer_, buffer) && __CPROVER_POINTER_OFFSET(stream.buffer_) >= 0 && __CPROVER_POINTER_OFFSET(stream.buffer_) <= total_sz && stream.size_ <= total_sz && __CPROVER_POINTER_OFFSET(stream.buffer_) + stream.size_ <= total_sz)\n__CPROVER_decreases(stream.size_)\nend'


def stream_loop(n=0, extra=''):
    return STREAM_INV % (n, extra)


TABLE += [
 dict(cls='DHCPv6', src='src/dhcpv6.cpp', hdr='include/tins/dhcpv6.h', structs=[], members='uint8_t header_data_[4]; uint32_t options_size_; uint8_t link_addr_[16]; uint8_t peer_addr_[16];',
      inits='inits: lower', predecl='typedef int MessageType; enum { RELAY_FORWARD = 12, RELAY_REPLY = 13 }; /* DHCPv6::MessageType values used by the constructor (RFC 8415) */',
      xfuncs='//@ func include/tins/dhcpv6.h DHCPv6::msg_type match "msg_type() const"\nsig: static MessageType DHCPv6_msg_type(const DHCPv6* this)\nclass: DHCPv6 include/tins/dhcpv6.h\n//@ endfunc\n//@ func src/dhcpv6.cpp DHCPv6::is_relay_message\nsig: static _Bool DHCPv6_is_relay_message(const DHCPv6* this)\nclass: DHCPv6 include/tins/dhcpv6.h\n//@ endfunc',
      rules='rule: DHCPv6_add_option\\(this, option\\(opt, ==> tins_add_option_range(opt,\nrule: \\+ data_size\\)\\); ==> + data_size);',
      loops=stream_loop(), mutant='mutant: if \\(!stream\\.can_read\\(data_size\\)\\) \\{\\s*throw malformed_packet\\(\\);\\s*\\} ==> '),
 dict(cls='BootP', src='src/bootp.cpp', hdr='include/tins/bootp.h', structs=['bootp_header'], members='bootp_header bootp_;',
      rules='rule: IMS_read_buf\\(&stream, this->vend_, vend_field_size\\) ==> IMS_read_vec(&stream, vend_field_size)',
      ctor_match='const uint8_t* buffer, uint32_t total_sz, uint32_t vend_field_size', extra_params=', uint32_t vend_field_size', extra_args=', v',
      extra_decl='uint32_t v;', inits='rule?: NOTHING ==> NOTHING'),
 dict(cls='PPPoE', src='src/pppoe.cpp', hdr='include/tins/pppoe.h', structs=['pppoe_header'], members='pppoe_header header_; uint32_t tags_size_;', news=['RawPDU'],
      inits='inits: lower', predecl='typedef int TagTypes;', funcs=[('payload_length', 'uint16_t'), ('code', 'uint8_t')],
      rules='rule: PPPoE_add_tag\\(this, tag\\(opt_type, opt_len, IMS_pointer\\(&stream\\)\\)\\); ==> tins_add_option_sized(opt_type, opt_len, IMS_pointer(&stream));',
      loops=stream_loop(), mutant='mutant: stream\\.size\\(\\) < payload_length\\(\\) \\? stream\\.size\\(\\) ==> stream.size() < payload_length() ? payload_length()'),
]



TABLE += [
 dict(cls='IPSecAH', src='src/ipsec.cpp', hdr='include/tins/ipsec.h', structs=['ipsec_header'], members='ipsec_header header_;',
      funcs=[('next_header', 'uint8_t'), ('length', 'uint8_t')],
      rules='rule: IMS_read_buf\\(&stream, this->icv_, icv_length\\) ==> IMS_read_vec(&stream, icv_length)',
      mutant='mutant: stream\\.size\\(\\),\\s*true ==> stream.size() + 1, true'),
 dict(cls='IPSecESP', src='src/ipsec.cpp', hdr='include/tins/ipsec.h', structs=[], xstructs='//@ struct include/tins/ipsec.h ipsec_header as ipsecesp_header nth 1', members='ipsecesp_header header_;', news=['RawPDU']),
 dict(cls='RTP', src='src/rtp.cpp', hdr='include/tins/rtp.h', structs=['rtp_header', 'rtp_extension_header'], members='rtp_header header_; rtp_extension_header ext_header_; uint8_t padding_size_;',
      memberlist='members: header_ ext_header_ padding_size_ csrc_ids_ ext_data_',
      funcs=[('csrc_count', 'uint8_t'), ('extension_bit', 'uint8_t'), ('padding_bit', 'uint8_t'), ('padding_size', 'uint8_t'), ('extension_length', 'uint16_t')],
      inits='inits: lower',
      post='/* every field a getter hands out is determined by the input: without the extension bit the extension header reads as in a default-constructed RTP (all zero), not as whatever the object\'s memory held */\n__CPROVER_ensures(RTP_extension_bit(this) == 1 || (this->ext_header_.profile == 0 && this->ext_header_.length == 0))',
      rules='rule: small_uint<4> csrc_count_ ==> uint8_t csrc_count_\nrule: this->csrc_ids_\\.push_back\\(csrc_id\\); ==> (void)csrc_id;\nrule: this->ext_data_\\.push_back\\(data\\); ==> (void)data;',
      loops='loop 0:\n__CPROVER_assigns(i, stream)\n__CPROVER_loop_invariant(i <= csrc_count_ && __CPROVER_same_object(stream.buffer_, buffer) && __CPROVER_POINTER_OFFSET(stream.buffer_) >= 0 && __CPROVER_POINTER_OFFSET(stream.buffer_) <= total_sz && stream.size_ <= total_sz && __CPROVER_POINTER_OFFSET(stream.buffer_) + stream.size_ <= total_sz)\n__CPROVER_decreases(csrc_count_ - i)\nend\nloop 1:\n__CPROVER_assigns(i, stream)\n__CPROVER_loop_invariant(i <= 65535 && __CPROVER_same_object(stream.buffer_, buffer) && __CPROVER_POINTER_OFFSET(stream.buffer_) >= 0 && __CPROVER_POINTER_OFFSET(stream.buffer_) <= total_sz && stream.size_ <= total_sz && __CPROVER_POINTER_OFFSET(stream.buffer_) + stream.size_ <= total_sz)\n__CPROVER_decreases(65536 - i)\nend',
      ),
 dict(cls='PPI', src='src/ppi.cpp', hdr='include/tins/ppi.h', structs=['ppi_header'], members='ppi_header header_;', news=['Dot3', 'EthernetII', 'RadioTap', 'Loopback', 'SLL'],
      funcs=[('length', 'uint16_t'), ('dlt', 'uint32_t')], xreplace='Internals_is_dot3 PPI_parse_80211',
      predecl='enum { DLT_NULL = 0, DLT_EN10MB = 1, DLT_IEEE802_11 = 105, DLT_LINUX_SLL = 113, DLT_IEEE802_11_RADIO = 127 }; /* libpcap link types (pcap/dlt.h) */\n_Bool Internals_is_dot3(const uint8_t* ptr, size_t sz)\n__CPROVER_requires(__CPROVER_r_ok(ptr, sz))\n__CPROVER_assigns()\n;\nstruct PPI_s; void PPI_parse_80211(struct PPI_s* this, const uint8_t* buffer, uint32_t total_sz)\n__CPROVER_requires(__CPROVER_r_ok(buffer, total_sz))\n__CPROVER_assigns()\n;',
      rules='rule: IMS_read_buf\\(&stream, this->data_, options_length\\) ==> IMS_read_vec(&stream, options_length)\nrule: PPI_parse_80211\\(this, ==> PPI_parse_80211((struct PPI_s*)this,',
      mutant='mutant: new Dot3\\(stream\\.pointer\\(\\), stream\\.size\\(\\)\\) ==> new Dot3(stream.pointer(), stream.size() + 2)'),
]

EAPOL_CONSTS = 'enum { key_iv_size = 16, key_sign_size = 16, nonce_size = 32, mic_size = 16, rsc_size = 8, id_size = 8 }; /* EAPOL static const sizes (eapol.h) */'
TABLE += [
 dict(cls='EAPOL', src='src/eapol.cpp', hdr='include/tins/eapol.h', structs=['eapol_header'], members='eapol_header header_;'),
 dict(cls='RC4EAPOL', src='src/eapol.cpp', hdr='include/tins/eapol.h', structs=['eapol_header', 'rc4_eapol_header'], members='eapol_header base_header_; rc4_eapol_header header_;',
      predecl=EAPOL_CONSTS, news=['RawPDU'], inits='inits: lower', memberlist='members: header_ key_',
      xfuncs='//@ func include/tins/eapol.h RC4EAPOL::key_length match "key_length() const"\nsig: static uint16_t RC4EAPOL_key_length(const RC4EAPOL* this)\nclass: RC4EAPOL include/tins/eapol.h\nmembers: header_\n//@ endfunc',
      rules='rule: IMS_read_buf\\(&stream, this->key_, RC4EAPOL_key_length\\(this\\)\\) ==> IMS_read_vec(&stream, RC4EAPOL_key_length(this))',
      ),
 dict(cls='RSNEAPOL', src='src/eapol.cpp', hdr='include/tins/eapol.h', structs=['eapol_header', 'rsn_eapol_header'], members='eapol_header base_header_; rsn_eapol_header header_;',
      predecl=EAPOL_CONSTS, news=['RawPDU'], inits='inits: lower', memberlist='members: header_ key_',
      xfuncs='//@ func include/tins/eapol.h RSNEAPOL::wpa_length match "wpa_length() const"\nsig: static uint16_t RSNEAPOL_wpa_length(const RSNEAPOL* this)\nclass: RSNEAPOL include/tins/eapol.h\nmembers: header_\n//@ endfunc',
      rules='rule: IMS_read_buf\\(&stream, this->key_, RSNEAPOL_wpa_length\\(this\\)\\) ==> IMS_read_vec(&stream, RSNEAPOL_wpa_length(this))'),
]

SI = '__CPROVER_same_object(stream.buffer_, buffer) && __CPROVER_POINTER_OFFSET(stream.buffer_) >= 0 && __CPROVER_POINTER_OFFSET(stream.buffer_) <= total_sz && stream.size_ <= total_sz && __CPROVER_POINTER_OFFSET(stream.buffer_) + stream.size_ <= total_sz'
TABLE += [
 dict(cls='LLC', src='src/llc.cpp', hdr='include/tins/llc.h', structs=['llchdr', 'info_control_field', 'super_control_field', 'un_control_field'],
      members='llchdr header_; uint8_t control_field_length_; union { info_control_field info; super_control_field super; un_control_field unnumbered; } control_field; int type_; uint8_t information_field_length_;',
      memberlist='members: header_ control_field_length_ control_field type_ information_field_length_ information_fields_', news=['STP', 'RawPDU'],
      predecl='typedef int Format; enum { INFORMATION = 0, SUPERVISORY = 1, UNNUMBERED = 3 };   /* LLC::Format (llc.h) */',
      xfuncs='\n'.join(['//@ func include/tins/llc.h LLC::%s match "%s() "\nsig: static uint8_t LLC_%s(const LLC* this)\nclass: LLC include/tins/llc.h\nmembers: header_ control_field_length_ control_field type_ information_field_length_\n//@ endfunc' % (g, g, g) for g in ('dsap', 'ssap')] +
                       ['//@ func src/llc.cpp LLC::type match "LLC::Format type"\nsig: static void LLC_type_set(LLC* this, Format type)\nclass: LLC include/tins/llc.h\nmembers: header_ control_field_length_ control_field type_ information_field_length_\nrule?: \\bLLC(?:::|_)(INFORMATION|SUPERVISORY|UNNUMBERED)\\b ==> \\1\n//@ endfunc']),
      rules='rule?: \\bLLC(?:::|_)(INFORMATION|SUPERVISORY|UNNUMBERED)\\b ==> \\1\nrule: LLC_type\\(this, ==> LLC_type_set(this,',
      mutant='mutant: if \\(!stream\\) \\{\\s*throw malformed_packet\\(\\);\\s*\\} ==> '),
 dict(cls='ICMPv6', src='src/icmpv6.cpp', hdr='include/tins/icmpv6.h', structs=['icmp6_header', 'multicast_listener_query_message_fields'],
      members='icmp6_header header_; uint8_t target_address_[16], dest_address_[16], multicast_address_[16]; uint32_t options_size_, reach_time_, retrans_timer_; multicast_listener_query_message_fields mlqm_; _Bool use_mldv2_;',
      memberlist='members: header_ target_address_ dest_address_ multicast_address_ options_size_ reach_time_ retrans_timer_ mlqm_ use_mldv2_ multicast_records_ sources_ extensions_', news=['RawPDU'],
      inits='inits: lower',
      xreplace='IMS_read_v6 tins_mar_ctor Internals_try_parse_icmp_extensions ICMPv6_parse_options',
      predecl='//@ include lib/icmp_ext.h\n//@ enum include/tins/icmpv6.h Types\ntypedef struct { uint8_t b[16]; } V6;\nV6 IMS_read_v6(IMS* this) IMS_READ_N_CONTRACT(16);   /* read<IPv6Address>() */\n'
              '/* multicast_address_record(ptr, size): its own constructor (reads inside [ptr, ptr+size) or throws); size() of the record built */\nsize_t tins_mar_ctor(const uint8_t* ptr, size_t n) __CPROVER_requires(__CPROVER_r_ok(ptr, n)) __CPROVER_assigns() __CPROVER_ensures(1);\n'
              'struct ICMPv6_s; void ICMPv6_parse_options(struct ICMPv6_s* this, IMS* stream) __CPROVER_requires(IMS_PRE(stream)) __CPROVER_assigns(*stream) __CPROVER_ensures(__CPROVER_same_object(stream->buffer_, __CPROVER_old(stream->buffer_)) && stream->size_ <= __CPROVER_old(stream->size_) && __CPROVER_POINTER_OFFSET(stream->buffer_) - __CPROVER_POINTER_OFFSET(__CPROVER_old(stream->buffer_)) == __CPROVER_old(stream->size_) - stream->size_) __CPROVER_ensures(IMS_VALID(stream));   /* icmpv6.parse_options */',
      xfuncs='\n'.join('//@ func include/tins/icmpv6.h ICMPv6::%s match "%s() const"\nsig: static %s ICMPv6_%s(const ICMPv6* this)\nclass: ICMPv6 include/tins/icmpv6.h\nmembers: header_\n//@ endfunc' % (g, g, r, g) for g, r in (('type', 'Types'), ('has_target_addr', '_Bool'), ('has_dest_addr', '_Bool'), ('length', 'uint8_t'))) +
             '\n//@ func src/icmpv6.cpp ICMPv6::has_options\nsig: static _Bool ICMPv6_has_options(const ICMPv6* this)\nclass: ICMPv6 include/tins/icmpv6.h\nmembers: header_\n//@ endfunc'
             '\n//@ func src/icmpv6.cpp ICMPv6::are_extensions_allowed\nsig: static _Bool ICMPv6_are_extensions_allowed(const ICMPv6* this)\nclass: ICMPv6 include/tins/icmpv6.h\nmembers: header_\n//@ endfunc'
             '\n//@ func src/icmpv6.cpp ICMPv6::try_parse_extensions\nsig: static void ICMPv6_try_parse_extensions(ICMPv6* this, IMS* stream)\nclass: ICMPv6 include/tins/icmpv6.h\nmembers: header_ extensions_\nrule: Internals_try_parse_icmp_extensions\\(stream, (.*?),\\s*this->extensions_\\); ==> Internals_try_parse_icmp_extensions(stream, \\1);\n//@ endfunc',
      rules='rule?: this->mlqm_ = 0; ==> memset(&this->mlqm_, 0, sizeof(this->mlqm_)); /* mlqm_() value-initialisation (done by the init-list lowering now) */\n'
            'rule: this->target_address_ = IMS_read_ipaddress_type\\(&stream\\); ==> { V6 a_ = IMS_read_v6(&stream); memcpy(this->target_address_, a_.b, 16); }\n'
            'rule: this->dest_address_ = IMS_read_ipaddress_type\\(&stream\\); ==> { V6 a_ = IMS_read_v6(&stream); memcpy(this->dest_address_, a_.b, 16); }\n'
            'rule: this->multicast_records_\\.push_back\\(\\s*multicast_address_record\\(IMS_pointer\\(&stream\\), IMS_size\\(&stream\\)\\)\\s*\\);\\s*IMS_skip\\(&stream, this->multicast_records_\\.back\\(\\)\\.size\\(\\)\\); ==> { size_t rec_size_ = tins_mar_ctor(IMS_pointer(&stream), IMS_size(&stream)); IMS_skip(&stream, rec_size_); }\n'
            'rule: IMS_read_obj\\(&stream, &\\(this->multicast_address_\\), sizeof\\(this->multicast_address_\\)\\) ==> IMS_read_obj(&stream, this->multicast_address_, 16)\n'
            'rule: this->use_mldv2_ = stream; ==> this->use_mldv2_ = IMS_bool(&stream);\n'
            'rule: while \\(sources_count--\\) \\{ ==> while (sources_count != 0) { sources_count--; /* while (sources_count--) */\n'
            'rule: ipaddress_type address;\\s*IMS_read_obj\\(&stream, &\\(?address\\)?, sizeof\\(address\\)\\);\\s*this->sources_\\.push_back\\(address\\); ==> { V6 address = IMS_read_v6(&stream); (void)address; }\n'
            'rule: ICMPv6_parse_options\\(this, stream\\) ==> ICMPv6_parse_options((struct ICMPv6_s*)this, &stream)\n'
            'rule: ICMPv6_try_parse_extensions\\(this, stream\\) ==> ICMPv6_try_parse_extensions(this, &stream)',
      loops='loop 0:\n__CPROVER_assigns(i, stream)\n__CPROVER_loop_invariant(i <= record_count && ' + SI + ')\n__CPROVER_decreases(record_count - i)\nend\nloop 1:\n__CPROVER_assigns(sources_count, stream)\n__CPROVER_loop_invariant(sources_count >= 0 && sources_count <= 65535 && ' + SI + ')\n__CPROVER_decreases(sources_count)\nend'),
]


def generate(outdir, tier):
    paths = []
    for e in TABLE:
        cls = e['cls']
        d = dict(cls=cls, lc=cls.lower(), src=e['src'], hdr=e['hdr'], members=e['members'],
                 structs='\n'.join('//@ struct %s %s' % (e['hdr'], s) for s in e['structs']) + e.get('xstructs', ''),
                 news=' '.join('new_' + n for n in e.get('news', []) if n != 'RawPDU') + (' new_RawPDU' if 'RawPDU' in e.get('news', []) else ''),
                 newdecls='\n'.join(NEW % n for n in e.get('news', []) if n != 'RawPDU'),
                 funcs='\n'.join(getter(cls, e['hdr'], n, r) for n, r in e.get('funcs', [])) + '\n' + e.get('xfuncs', ''),
                 anch=''.join(', %s::%s' % (cls, n) for n, r in e.get('funcs', [])),
                 rules=e.get('rules', ''), inits=e.get('inits', ''), mutant=e.get('mutant', ''), post=e.get('post', ''), xreplace=e.get('xreplace', ''),
                 predecl=e.get('predecl', ''), loops=e.get('loops', ''), hdrx=e.get('hdrx', ''), memberlist=e.get('memberlist', ''),
                 ctor_match=e.get('ctor_match', 'const uint8_t* buffer, uint32_t total_sz'), extra_params=e.get('extra_params', ''), extra_args=e.get('extra_args', ''), extra_decl=e.get('extra_decl', ''))
        p = os.path.join(outdir, 'ctor_%s.unit' % cls)
        with open(p, 'w') as f:
            f.write(T % d)
        paths.append(p)
    return paths
