"""C01: constructors of the form `InputMemoryStream stream(buffer,total_sz); stream.read(header_); ... dispatch`.
One spec template, instantiated from the table below; the bodies are extracted from /repo each run."""
import os

T = '''#! unit: %(lc)s.ctor
#! property: C01
#! mode: proof
#! entry: h_ctor
#! enforce: %(cls)s_ctor
#! replace: IMS_ctor IMS_skip IMS_read_obj IMS_read_uint8_t IMS_read_uint32_t IMS_pointer IMS_size IMS_bool PDU_set_inner Internals_pdu_from_flag Internals_pdu_from_flag4 Internals_pdu_from_dlt_flag %(news)s
#! anchors: %(cls)s::%(cls)s(const uint8_t*, uint32_t) (%(src)s)%(anch)s
#! assumed: cursor methods by their contracts (cursor.* units); construction of the next layer by a stub contract (the range handed over must be readable)
#! replay: c01_parse
//@ include lib/endian.h
//@ include lib/pdu.h
//@ include lib/ims.h
//@ include lib/pdu_parse.h
//@ enum include/tins/pdu.h PDUType prefix PT_
PDU* Internals_pdu_from_dlt_flag(uint32_t flag, const uint8_t* buffer, uint32_t size)
__CPROVER_requires(__CPROVER_r_ok(buffer, size))
__CPROVER_assigns()
__CPROVER_ensures(__CPROVER_return_value == NULL || __CPROVER_is_fresh(__CPROVER_return_value, sizeof(PDU)))
;
%(newdecls)s
%(structs)s
typedef struct { PDU_BASE; %(members)s } %(cls)s;
%(funcs)s
//@ func %(src)s %(cls)s::%(cls)s match "const uint8_t* buffer, uint32_t total_sz"
sig: void %(cls)s_ctor(%(cls)s* this, const uint8_t* buffer, uint32_t total_sz)
class: %(cls)s %(hdr)s
%(inits)s
%(rules)s
contract:
__CPROVER_requires(total_sz <= 65535 && __CPROVER_is_fresh(buffer, total_sz))
__CPROVER_requires(__CPROVER_is_fresh(this, sizeof(*this)))
__CPROVER_assigns(*this)
end
%(mutant)s
//@ endfunc
void h_ctor(void) {
  %(cls)s* t; const uint8_t* b; uint32_t n;
  %(cls)s_ctor(t, b, n);
  TINS_REACH("post");
}
'''

NEW = '''PDU* new_%s(const uint8_t* ptr, uint32_t n)
__CPROVER_requires(__CPROVER_r_ok(ptr, n))
__CPROVER_assigns()
__CPROVER_ensures(__CPROVER_is_fresh(__CPROVER_return_value, sizeof(PDU)))
;'''


def getter(cls, hdr, name, ret, where=None):
    return ('//@ func %s %s::%s match "%s() const"\nsig: static %s %s_%s(const %s* this)\nclass: %s %s\n//@ endfunc'
            % (where or hdr, cls, name, name, ret, cls, name, cls, cls, hdr))


TABLE = [
 dict(cls='UDP', src='src/udp.cpp', hdr='include/tins/udp.h', structs=['udp_header'], members='udp_header header_;', news=['RawPDU'],
      mutant='mutant: stream\\.size\\(\\)\\)\\); ==> stream.size() + 1));'),
 dict(cls='EthernetII', src='src/ethernetII.cpp', hdr='include/tins/ethernetII.h', structs=['ethernet_header'], members='ethernet_header header_;',
      funcs=[('payload_type', 'uint16_t')]),
 dict(cls='Dot3', src='src/dot3.cpp', hdr='include/tins/dot3.h', structs=['dot3_header'], members='dot3_header header_;', news=['LLC']),
 dict(cls='SNAP', src='src/snap.cpp', hdr='include/tins/snap.h', structs=['snap_header'], members='snap_header snap_;', funcs=[('eth_type', 'uint16_t')]),
 dict(cls='Dot1Q', src='src/dot1q.cpp', hdr='include/tins/dot1q.h', structs=['dot1q_header'], members='dot1q_header header_; _Bool append_padding_;',
      funcs=[('payload_type', 'uint16_t')], inits='inits: lower'),
 dict(cls='MPLS', src='src/mpls.cpp', hdr='include/tins/mpls.h', structs=['mpls_header'], members='mpls_header header_;', news=['IP', 'IPv6', 'RawPDU', 'MPLS'],
      funcs=[('bottom_of_stack', 'uint8_t')], mutant='mutant: if \\(stream\\) \\{ ==> {'),
 dict(cls='SLL', src='src/sll.cpp', hdr='include/tins/sll.h', structs=['sll_header'], members='sll_header header_;', funcs=[('protocol', 'uint16_t')]),
 dict(cls='Loopback', src='src/loopback.cpp', hdr='include/tins/loopback.h', structs=[], members='uint32_t family_;', news=['IP', 'IPv6', 'LLC', 'RawPDU'],
      rules='rule?: \\bPF_INET6\\b ==> 10\nrule?: \\bPF_INET\\b ==> 2\nrule?: \\bPF_LLC\\b ==> 26'),
 dict(cls='ARP', src='src/arp.cpp', hdr='include/tins/arp.h', structs=['arp_header'], members='arp_header header_;', news=['RawPDU']),
 dict(cls='STP', src='src/stp.cpp', hdr='include/tins/stp.h', structs=['pvt_bpdu_id', 'stp_header'], members='stp_header header_;', unreach=''),
 dict(cls='VXLAN', src='src/vxlan.cpp', hdr='include/tins/vxlan.h', structs=['vxlan_header'], members='vxlan_header header_;'),
 dict(cls='PKTAP', src='src/pktap.cpp', hdr='include/tins/pktap.h', structs=['pktap_header'], members='pktap_header header_;',
      mutant='mutant: stream\\.size\\(\\)\\s*\\) ==> stream.size() + 1)'),
]


def generate(outdir, tier):
    paths = []
    for e in TABLE:
        cls = e['cls']
        d = dict(cls=cls, lc=cls.lower(), src=e['src'], hdr=e['hdr'], members=e['members'],
                 structs='\n'.join('//@ struct %s %s' % (e['hdr'], s) for s in e['structs']),
                 news=' '.join('new_' + n for n in e.get('news', []) if n != 'RawPDU') + (' new_RawPDU' if 'RawPDU' in e.get('news', []) else ''),
                 newdecls='\n'.join(NEW % n for n in e.get('news', []) if n != 'RawPDU'),
                 funcs='\n'.join(getter(cls, e['hdr'], n, r) for n, r in e.get('funcs', [])),
                 anch=''.join(', %s::%s' % (cls, n) for n, r in e.get('funcs', [])),
                 rules=e.get('rules', ''), inits=e.get('inits', ''), mutant=e.get('mutant', ''))
        p = os.path.join(outdir, 'ctor_%s.unit' % cls)
        with open(p, 'w') as f:
            f.write(T % d)
        paths.append(p)
    return paths
