"""C02 cursor units: one unit per OutputMemoryStream method, each body enforced against the contract macro of
specs/lib/oms.h that every serializer unit uses by replacement."""
import os

HEAD = '''#! unit: cursor.%(name)s
#! property: C02
#! mode: proof
#! entry: h_cursor
#! enforce: %(cname)s
#! replace: %(replace)s
#! allow-exc: serialization_error malformed_packet
#! anchors: OutputMemoryStream::%(meth)s (include/tins/memory_helpers.h)
#! assumed: memcpy/memset write n bytes at dst (libc contract; the precondition is checked)
#define OMS_BODIES
//@ include lib/endian.h
//@ include lib/mem.h
//@ include lib/oms.h
%(protos)s
/* from here on preconditions are those of the ENFORCED contract */
#undef TINS_PRE_R
#undef TINS_PRE_W
#define TINS_PRE_R(p, n) __CPROVER_is_fresh((p), (n))
#define TINS_PRE_W(p, n) __CPROVER_is_fresh((p), (n))
size_t G_len;
#undef TINS_RANGE_PRE
#define TINS_RANGE_PRE(a, b) (G_len <= 65535 && __CPROVER_is_fresh(a, G_len) && (b) == (a) + G_len)
//@ func include/tins/memory_helpers.h "OutputMemoryStream::%(meth)s" %(match)s
sig: %(sig)s
class: OutputMemoryStream include/tins/memory_helpers.h
%(rules)s
contract:
%(contract)s
end
//@ endfunc
void h_cursor(void) {
  %(harness)s
  TINS_REACH("post");
}
'''
P = {
 'skip': 'void OMS_skip(OMS* this, size_t size) OMS_SKIP_CONTRACT;',
 'write_obj': 'void OMS_write_obj(OMS* this, const void* value, size_t n) OMS_WRITE_OBJ_CONTRACT;',
 'write_range': 'void OMS_write_range(OMS* this, const uint8_t* start, const uint8_t* end) OMS_WRITE_RANGE_CONTRACT;',
}
REPL = {'skip': 'OMS_skip', 'write_obj': 'OMS_write_obj', 'write_range': 'OMS_write_range', 'memcpy': 'tins_memcpy_frame', 'memset': 'tins_memset_frame'}
FRAME_STUBS = '''/* memcpy/memset with an exact frame (n bytes at dst) so that "writes only inside its window" is proved */
void* tins_memcpy_frame(void* dst, const void* src, size_t n)
__CPROVER_requires(__CPROVER_w_ok(dst, n) && __CPROVER_r_ok(src, n))
__CPROVER_assigns(__CPROVER_object_upto(dst, n))
__CPROVER_ensures(G_oms_i < n ==> ((const uint8_t*)dst)[G_oms_i] == ((const uint8_t*)src)[G_oms_i])
;
void* tins_memset_frame(void* dst, int c, size_t n)
__CPROVER_requires(__CPROVER_w_ok(dst, n))
__CPROVER_assigns(__CPROVER_object_upto(dst, n))
;'''


def unit(name, cname, meth, match, sig, contract, harness, uses=(), rules=''):
    return HEAD % dict(name=name, cname=cname, meth=meth, match=('match "%s"' % match) if match else '', sig=sig, contract=contract, harness=harness, rules=rules,
                       replace=' '.join(REPL[u] for u in uses), protos=FRAME_STUBS + '\n' + '\n'.join(P[u] for u in uses if u in P))


def generate(outdir, tier):
    U = []
    U.append(('oms_ctor', unit('oms_ctor', 'OMS_ctor', 'OutputMemoryStream', 'uint8_t* buffer, size_t total_sz', 'void OMS_ctor(OMS* this, uint8_t* buffer, size_t total_sz)', 'OMS_CTOR_CONTRACT',
                               'OMS* s; uint8_t* b; size_t n; OMS_ctor(s, b, n);', rules='inits: lower')))
    U.append(('oms_skip', unit('oms_skip', 'OMS_skip', 'skip', 'size_t size', 'void OMS_skip(OMS* this, size_t size)', 'OMS_SKIP_CONTRACT', 'OMS* s; size_t n; OMS_skip(s, n);',
                               rules='mutant: size > size_ ==> size > size_ + 1')))
    U.append(('oms_write_obj', unit('oms_write_obj', 'OMS_write_obj', 'write', 'void write(const T& value)', 'void OMS_write_obj(OMS* this, const void* value, size_t n)', 'OMS_WRITE_OBJ_CONTRACT',
                                    'OMS* s; const void* v; size_t n; OMS_write_obj(s, v, n);', uses=('skip', 'memcpy'),
                                    rules='rule: sizeof\\(value\\) ==> n\nrule: write_value\\(this->buffer_, value\\) ==> tins_memcpy_frame(this->buffer_, value, n) /* write_value = std::memcpy(buffer, &value, sizeof(value)) */\nmutant: size_ < sizeof\\(value\\) ==> size_ + 1 < sizeof(value)')))
    U.append(('oms_write_range', unit('oms_write_range', 'OMS_write_range', 'write', 'ForwardIterator start, ForwardIterator end', 'void OMS_write_range(OMS* this, const uint8_t* start, const uint8_t* end)', 'OMS_WRITE_RANGE_CONTRACT',
                                      'OMS* s; const uint8_t* a; const uint8_t* b; OMS_write_range(s, a, b);', uses=('skip', 'memcpy'),
                                      rules='rule: std::distance\\(start, end\\) ==> (end - start)\nrule: memcpy\\(this->buffer_, &\\*start, length\\) ==> tins_memcpy_frame(this->buffer_, start, length)')))
    U.append(('oms_write_buf', unit('oms_write_buf', 'OMS_write_buf', 'write', 'const uint8_t* ptr, size_t length', 'void OMS_write_buf(OMS* this, const uint8_t* value, size_t n)', 'OMS_WRITE_OBJ_CONTRACT',
                                    'OMS* s; const uint8_t* v; size_t n; OMS_write_buf(s, v, n);', uses=('write_range',),
                                    rules='rule: OMS_write\\(this, ptr, ptr \\+ length\\) ==> OMS_write_range(this, value, value + n)')))
    U.append(('oms_fill', unit('oms_fill', 'OMS_fill', 'fill', None, 'void OMS_fill(OMS* this, size_t size, uint8_t value)', 'OMS_WRITE_CONTRACT(size)',
                               'OMS* s; size_t n; uint8_t v; OMS_fill(s, n, v);', uses=('skip', 'memset'), rules='rule: \\bmemset\\( ==> tins_memset_frame(')))
    for t in ('uint8_t', 'uint16_t', 'uint32_t', 'uint64_t'):
        n = {'uint8_t': 1, 'uint16_t': 2, 'uint32_t': 4, 'uint64_t': 8}[t]
        for kind in ('be', 'le'):
            if t == 'uint8_t':
                continue
            U.append(('oms_write_%s_%s' % (kind, t), unit('oms_write_%s_%s' % (kind, t), 'OMS_write_%s_%s' % (kind, t), 'write_' + kind, None,
                      'void OMS_write_%s_%s(OMS* this, %s value)' % (kind, t, t), 'OMS_WRITE_CONTRACT(%d)' % n,
                      'OMS* s; %s v; OMS_write_%s_%s(s, v);' % (t, kind, t), uses=('write_obj',),
                      rules='rule: OMS_write\\(this, (TINS_host_to_\\w+\\(value\\))\\) ==> { %s tmp_ = \\1; OMS_write_obj(this, &tmp_, sizeof(tmp_)); }' % t)))
    U.append(('oms_pointer', unit('oms_pointer', 'OMS_pointer', 'pointer', None, 'uint8_t* OMS_pointer(OMS* this)', 'OMS_POINTER_CONTRACT', 'OMS* s; OMS_pointer(s);')))
    U.append(('oms_size', unit('oms_size', 'OMS_size', 'size', None, 'size_t OMS_size(const OMS* this)', 'OMS_SIZE_CONTRACT', 'OMS* s; OMS_size(s);')))
    paths = []
    for n, text in U:
        p = os.path.join(outdir, 'cursor_%s.unit' % n)
        with open(p, 'w') as f:
            f.write(text)
        paths.append(p)
    return paths
