"""dhcp.option_list_wire_image: the extraction rules of dhcp_option_wire_image.unit with a harness over two options.

The one-option unit decides every option length (0..255); this one decides what only a list can show (an option after
END or PAD, the second option's position) with data of at most MAXLEN octets per option: quick 6, thorough 16."""
import os


HARNESS = r'''size_t G_k;
#define MAXLEN %(maxlen)d
void h(void) {
  G_k = nondet_size_t();
  DHCP* d = malloc(sizeof(DHCP)); __CPROVER_assume(d != NULL); d->size_ = 4; d->options_.n = 0; d->G_vend = NULL;
  uint8_t W_code[2], W_len[2]; uint8_t data[2][MAXLEN];
  size_t n = 2;
  for (size_t i = 0; i < n; ++i) {
    OPT* o = malloc(sizeof(OPT)); __CPROVER_assume(o != NULL);
    W_code[i] = nondet_uint8_t(); W_len[i] = nondet_uint8_t(); __CPROVER_assume(W_len[i] <= MAXLEN);
    o->option_ = W_code[i]; o->size_ = W_len[i]; o->real_size_ = W_len[i];      /* option(type, length, data) as DHCP::DHCP(buffer) builds it */
    if (W_code[i] == PAD || W_code[i] == END) __CPROVER_assume(W_len[i] == 0);     /* the parser never reads a length for these */
    o->data_ = data[i];
    DHCP_add_option(d, o);
  }
  DHCP_write_serialization(d, NULL, 0);
  const uint8_t* v = d->G_vend; uint32_t sz = d->size_;
  __CPROVER_assert(sz >= 5 && v[0] == 0x63 && v[1] == 0x82 && v[2] == 0x53 && v[3] == 0x63, "the options area starts with the magic cookie");
  /* RFC 2132 wire format, as DHCP::DHCP(buffer) reads it back: the parser keeps reading after END and PAD */
  uint32_t pos = 4;
  for (size_t i = 0; i < n; ++i) {
    __CPROVER_assert(pos < sz, "an option code octet follows");
    uint8_t code = v[pos]; uint32_t used = 1; uint8_t len = 0;
    if (code != PAD && code != END) { __CPROVER_assert(pos + 1 < sz, "a length octet follows"); len = v[pos + 1]; used = 2 + (uint32_t)len; }
    __CPROVER_assert(code == W_code[i], "every option of the list is read back in order: code");
    __CPROVER_assert(len == W_len[i], "every option of the list is read back in order: length");
    if (G_k < W_len[i]) __CPROVER_assert(v[pos + 2 + G_k] == data[i][G_k], "every option of the list is read back in order: data");
    pos += used;
  }
  __CPROVER_assert(pos == sz, "the options occupy exactly the octets the size bookkeeping reserved: nothing is left over to be read as another option");
  TINS_REACH("post");
}
'''


def generate(outdir, tier):
    t = open(os.path.join(os.path.dirname(os.path.abspath(__file__)), 'dhcp_option_wire_image.unit')).read()
    maxlen = 16 if tier == "thorough" else 6
    t = t[:t.index('size_t G_k;')] + HARNESS % {'maxlen': maxlen}
    t = t.replace('#! unit: dhcp.option_wire_image', '#! unit: dhcp.option_list_wire_image')
    t = t.replace('#! mode: proof', '#! mode: bounded\n#! bound: two options, each with at most %d data octets (the one-option unit covers every length)' % maxlen)
    t = t.replace('typedef struct { size_t n; OPT e[1]; } OPTV;', 'typedef struct { size_t n; OPT e[2]; } OPTV;')
    t = t.replace('the options list holds exactly one, arbitrary, option as the parser creates it', 'the options list holds two arbitrary options as the parser creates them')
    t = t.replace('#! cbmc: --unwind 3 --unwinding-assertions', '#! cbmc: --unwind %d --unwinding-assertions' % (maxlen + 2))
    assert 'OPT e[2]' in t and 'option_list_wire_image' in t
    p = os.path.join(outdir, 'dhcp_option_list.unit')
    with open(p, 'w') as f:
        f.write(t)
    return [p]
