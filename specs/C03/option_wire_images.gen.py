"""C03/C04: option (tag, information element) lists on the wire. For each layer class whose serializer walks its option
vector, the REAL write_serialization is run over a list of two arbitrary options (data of at most MAXLEN octets each; quick 6,
thorough 16) into a buffer of exactly header + cached-size octets through the real output cursor, and the harness reads the
bytes back with the wire grammar the class's parser uses: both options, in order, with their codes, lengths and data, and
nothing left over.  Like dhcp.option_list_wire_image (whose one-option sibling covers every length)."""
import os

T = r'''#! unit: %(lc)s.option_list_wire_image
#! property: C03
#! mode: bounded
#! bound: two options, each with at most %(maxlen)d data octets
#! pipeline: plain
#! entry: h
#! cbmc: --unwind %(unwind)d --unwinding-assertions
#! allow-exc: none
#! anchors: %(cls)s::write_serialization, %(cls)s::header_size%(xanch)s (%(src)s), PDUOption::option / data_size / length_field / data_ptr (include/tins/pdu_option.h), OutputMemoryStream methods (include/tins/memory_helpers.h)
#! assumed: the option vector holds two arbitrary options as the parser or add_%(what)s creates them (length field == stored size <= %(maxlen)d); the cached size is the sum of their wire sizes (C04 %(lc)s bookkeeping units)%(xassumed)s
#! replay: c03_option_lists
//@ include lib/endian.h
//@ include lib/oms_real.h
//@ include lib/opt.h
typedef struct { size_t n; OPT e[2]; } OPTV;
%(decls)s
%(funcs)s
//@ func %(src)s %(cls)s::header_size
sig: static uint32_t %(cls)s_header_size(const %(cls)s* this)
class: %(cls)s %(hdr)s
%(hs_rules)s
//@ endfunc
#define MAXLEN %(maxlen)d
size_t G_k;
void h(void) {
  G_k = nondet_size_t();
  %(cls)s* d = malloc(sizeof(%(cls)s)); __CPROVER_assume(d != NULL);
  uint16_t W_code[2]; uint16_t W_len[2]; uint8_t data[2][MAXLEN];
  uint32_t sum = 0;
  for (size_t i = 0; i < 2; ++i) {
    W_code[i] = nondet_uint16_t(); W_len[i] = nondet_uint16_t(); __CPROVER_assume(W_len[i] <= MAXLEN && W_code[i] <= %(maxcode)s);
    OPT* o = &d->%(vec)s.e[i];
    o->option_ = W_code[i]; o->size_ = W_len[i]; o->real_size_ = W_len[i]; o->data_ = data[i];
    sum += %(ohdr)du + W_len[i];
  }
  d->%(vec)s.n = 2; d->%(size_member)s = sum;
  %(setup)s
  uint32_t hs = %(hs)s;
  uint32_t sz = hs + sum;
  __CPROVER_assert(%(cls)s_header_size(d) == %(hs_expect)s, "header_size() is the number of octets write_serialization writes (C02: size-exact)");
  uint8_t* v = malloc(sz); __CPROVER_assume(v != NULL);
  %(cls)s_write_serialization(d, v, sz);
  /* read back with the wire grammar of %(cls)s's parser */
  uint32_t pos = hs;
  for (size_t i = 0; i < 2; ++i) {
    __CPROVER_assert(pos + %(ohdr)du <= sz, "an option header follows");
    uint16_t code = %(rd_code)s; uint16_t len = %(rd_len)s;
    __CPROVER_assert(code == W_code[i], "every option of the list is written in order: code");
    __CPROVER_assert(len == W_len[i], "every option of the list is written in order: length");
    if (G_k < W_len[i]) __CPROVER_assert(v[pos + %(ohdr)du + G_k] == data[i][G_k], "every option of the list is written in order: data");
    pos += %(ohdr)du + len;
  }
  __CPROVER_assert(pos == sz, "the options occupy exactly the octets the size bookkeeping reserved");
  %(post)s
  TINS_REACH("post");
}
'''

TABLE = [
 dict(cls='PPPoE', what='tag', src='src/pppoe.cpp', hdr='include/tins/pppoe.h', vec='tags_', size_member='tags_size_', ohdr=4, maxcode='65535',
      xanch=', PPPoE::payload_length', xassumed='',
      decls='//@ struct include/tins/pppoe.h pppoe_header\ntypedef struct { pppoe_header header_; OPTV tags_; uint16_t tags_size_; } PPPoE;',
      funcs='''//@ func src/pppoe.cpp PPPoE::payload_length match "uint16_t new_payload_length"
sig: static void PPPoE_payload_length_set(PPPoE* this, uint16_t new_payload_length)
class: PPPoE include/tins/pppoe.h
//@ endfunc
//@ func src/pppoe.cpp PPPoE::write_serialization
sig: static void PPPoE_write_serialization(PPPoE* this, uint8_t* buffer, uint32_t total_sz)
class: PPPoE include/tins/pppoe.h
members: header_ tags_ tags_size_
rule: PPPoE_payload_length\\(this, ==> PPPoE_payload_length_set(this,
rule: for \\(tags_type::const_iterator it = this->tags_\\.begin\\(\\); it != this->tags_\\.end\\(\\); \\+\\+it\\) ==> for (const OPT* it = &this->tags_.e[0]; it != &this->tags_.e[0] + this->tags_.n; ++it)
rule: it->option\\(\\) ==> (uint16_t)OPT_option(it)
rule: it->length_field\\(\\) ==> OPT_length_field(it)
rule: it->data_ptr\\(\\), it->data_size\\(\\) ==> OPT_data_ptr(it), OPT_data_size(it)
rule?: OMS_write\\(&stream, (OPT_data_ptr.*?)\\); ==> OMS_write_buf(&stream, \\1);
mutant: stream\\.write\\(Endian::host_to_be<uint16_t>\\(it->length_field\\(\\)\\)\\); ==> stream.write<uint16_t>(it->length_field());
//@ endfunc''',
      setup='', hs='(uint32_t)sizeof(pppoe_header)', hs_rules='', hs_expect='sz',
      rd_code='(uint16_t)(v[pos] | (v[pos + 1] << 8))   /* the tag type is kept in wire order in memory: read<uint16_t>() */', rd_len='(uint16_t)((v[pos + 2] << 8) | v[pos + 3])',
      post='__CPROVER_assert(((uint16_t)((v[4] << 8) | v[5])) == sum, "PPPoE payload length = the octets of the tags that follow the header (C05)");'),
 dict(cls='Dot11', what='option', src='src/dot11/dot11_base.cpp', hdr='include/tins/dot11/dot11_base.h', vec='options_', size_member='options_size_', ohdr=2, maxcode='255',
      xanch='', xassumed='; write_ext_header / write_fixed_parameters (virtual, per subclass) write W_ext / W_fixed octets through the cursor',
      decls='//@ struct include/tins/dot11/dot11_base.h dot11_header\ntypedef struct { dot11_header header_; uint32_t options_size_; OPTV options_; uint32_t G_ext, G_fixed; } Dot11;\nstatic void Dot11_write_ext_header(Dot11* this, OMS* stream);\nstatic void Dot11_write_fixed_parameters(Dot11* this, OMS* stream);',
      funcs='''static void Dot11_write_ext_header(Dot11* this, OMS* stream) { OMS_fill(stream, this->G_ext, 0); }
static void Dot11_write_fixed_parameters(Dot11* this, OMS* stream) { OMS_fill(stream, this->G_fixed, 0); }
//@ func src/dot11/dot11_base.cpp Dot11::write_serialization
sig: static void Dot11_write_serialization(Dot11* this, uint8_t* buffer, uint32_t total_sz)
class: Dot11 include/tins/dot11/dot11_base.h
members: header_ options_ options_size_
rule: Dot11_write_ext_header\\(this, stream\\) ==> Dot11_write_ext_header(this, &stream)
rule: Dot11_write_fixed_parameters\\(this, stream\\) ==> Dot11_write_fixed_parameters(this, &stream)
rule: for \\(vector<option>::const_iterator it = this->options_\\.begin\\(\\); it != this->options_\\.end\\(\\); \\+\\+it\\) ==> for (const OPT* it = &this->options_.e[0]; it != &this->options_.e[0] + this->options_.n; ++it)
rule: it->option\\(\\) ==> (uint8_t)OPT_option(it)
rule: it->length_field\\(\\) ==> OPT_length_field(it)
rule: it->data_ptr\\(\\), it->data_size\\(\\) ==> OPT_data_ptr(it), OPT_data_size(it)
rule?: OMS_write\\(&stream, (OPT_data_ptr.*?)\\); ==> OMS_write_buf(&stream, \\1);
mutant: stream\\.write<uint8_t>\\(it->length_field\\(\\)\\); ==> stream.write<uint8_t>(it->length_field() + 1);
//@ endfunc''',
      setup='uint32_t W_ext = nondet_uint32_t(), W_fixed = nondet_uint32_t(); __CPROVER_assume(W_ext <= 8 && W_fixed <= 12); d->G_ext = W_ext; d->G_fixed = W_fixed;',
      hs='(uint32_t)sizeof(dot11_header) + W_ext + W_fixed', hs_rules='', hs_expect='sz - W_ext - W_fixed   /* the subclass adds its own ext header and fixed parameters */',
      rd_code='v[pos]', rd_len='v[pos + 1]', post=''),
dict(cls='DHCPv6', what='option', src='src/dhcpv6.cpp', hdr='include/tins/dhcpv6.h', vec='options_', size_member='options_size_', ohdr=4, maxcode='65535',
      xanch=', DHCPv6::write_option, DHCPv6::is_relay_message, DHCPv6::msg_type', xassumed='',
      decls='typedef struct { uint8_t b[16]; } V6;\ntypedef struct { uint8_t header_data_[4]; uint32_t options_size_; V6 link_addr_, peer_addr_; OPTV options_; } DHCPv6;',
      funcs='''//@ func include/tins/dhcpv6.h DHCPv6::msg_type match "msg_type() const"
sig: static uint8_t DHCPv6_msg_type(const DHCPv6* this)
class: DHCPv6 include/tins/dhcpv6.h
rule?: \\(MessageType\\) ==> (uint8_t)
//@ endfunc
//@ func src/dhcpv6.cpp DHCPv6::is_relay_message
sig: static _Bool DHCPv6_is_relay_message(const DHCPv6* this)
class: DHCPv6 include/tins/dhcpv6.h
//@ endfunc
//@ func src/dhcpv6.cpp DHCPv6::write_option
sig: static void DHCPv6_write_option(const DHCPv6* this, const OPT* opt, OMS* stream)
class: DHCPv6 include/tins/dhcpv6.h
rule: opt\\.option\\(\\) ==> OPT_option(opt)
rule: opt\\.length_field\\(\\) ==> OPT_length_field(opt)
rule: opt\\.data_ptr\\(\\), opt\\.data_size\\(\\) ==> OPT_data_ptr(opt), OPT_data_size(opt)
rule: stream\\.write_be<uint16_t>\\( ==> OMS_write_be_uint16_t(stream, 
rule: stream\\.write\\((OPT_data_ptr.*?)\\); ==> OMS_write_buf(stream, \\1);
mutant: stream\\.write_be<uint16_t>\\(opt\\.length_field\\(\\)\\); ==> stream.write_be<uint16_t>(opt.length_field() + 1);
//@ endfunc
//@ func src/dhcpv6.cpp DHCPv6::write_serialization
sig: static void DHCPv6_write_serialization(DHCPv6* this, uint8_t* buffer, uint32_t total_sz)
class: DHCPv6 include/tins/dhcpv6.h
members: header_data_ options_size_ link_addr_ peer_addr_ options_
rule?: OMS_write\\(&stream, this->header_data_, required_size\\); ==> OMS_write_buf(&stream, this->header_data_, required_size);
rule?: OMS_write_val\\(&stream, this->(link|peer)_addr_\\); ==> OMS_write_buf(&stream, this->\\1_addr_.b, 16);
rule: for \\(options_type::const_iterator it = this->options_\\.begin\\(\\); it != this->options_\\.end\\(\\); \\+\\+it\\) ==> for (const OPT* it = &this->options_.e[0]; it != &this->options_.e[0] + this->options_.n; ++it)
rule: DHCPv6_write_option\\(this, \\*it, stream\\) ==> DHCPv6_write_option(this, it, &stream)
//@ endfunc''',
      setup='uint8_t W_type = nondet_uint8_t(); d->header_data_[0] = W_type;',
      hs='((W_type == 12 || W_type == 13) ? 2u + 32u : 4u)   /* RFC 8415: relay messages carry hop count + two addresses, the others a 3-octet transaction id */',
      hs_rules='rule: ipaddress_type::address_size ==> 16', hs_expect='sz',
      rd_code='(uint16_t)((v[pos] << 8) | v[pos + 1])', rd_len='(uint16_t)((v[pos + 2] << 8) | v[pos + 3])', post=''),
]


def generate(outdir, tier):
    out = []
    maxlen = 16 if tier == 'thorough' else 6
    for e in TABLE:
        d = dict(e, lc=e['cls'].lower(), maxlen=maxlen, unwind=maxlen + 14)
        p = os.path.join(outdir, 'option_wire_image_%s.unit' % d['lc'])
        with open(p, 'w') as f:
            f.write(T % d)
        out.append(p)
    return out
