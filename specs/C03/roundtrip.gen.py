"""C03 header round trips: for each fixed-header layer class the REAL constructor, the REAL write_serialization and the REAL
cursor methods are extracted and composed in one loop-free harness over a fully symbolic input (plain pipeline: a complete
proof, no bound).  Obligation: every non-derived header byte of serialize(parse(b)) equals the byte of b; the next-protocol
tag is preserved when the payload class has no tag of its own, and otherwise is the tag that dispatches to the same class."""
import glob
import os
import re

REPO = os.environ.get('VERIF_REPO', '/repo')


def class_flags():
    """class name -> PDU::PDUType enumerator, read from the headers (static const PDU::PDUType pdu_flag = PDU::X)."""
    out = {}
    for h in sorted(glob.glob(os.path.join(REPO, 'include/tins/**/*.h'), recursive=True)):
        txt = open(h).read()
        for m in re.finditer(r'pdu_flag\s*=\s*PDU::(\w+)\s*;', txt):
            cl = None
            for c in re.finditer(r'class\s+(?:TINS_API\s+)?(\w+)\s*(?::[^{;]*)?\{', txt[:m.start()]):
                cl = c.group(1)
            if cl:
                out[cl] = m.group(1)
    return out


HEAD = '''#! unit: %(lc)s.header_round_trip
#! property: C03
#! mode: proof
#! pipeline: plain
#! entry: h
#! anchors: %(cls)s::%(cls)s(const uint8_t*, uint32_t), %(cls)s::write_serialization, %(cls)s::header_size%(xanch)s (%(src)s, %(hdr)s), Internals::pdu_from_flag, pdu_flag_to_ether_type, pdu_flag_to_ip_type (src/detail/pdu_helpers.cpp), InputMemoryStream / OutputMemoryStream methods (include/tins/memory_helpers.h)
#! assumed: the child layer is represented by its class tag and the number of bytes it was parsed from (its own parsing and serialization are that class's units); a child constructor may reject its bytes (the path ends); no user-registered PDU types (pdu_allocator.h registries empty)
#! replay: c03_headers
#! define: RT_CLASS_%(cls)s TINS_EXC_ALLOWED(e)=(!G_parsing_done&&(e)==EXC_malformed_packet)
_Bool G_parsing_done;   /* after the constructor returned, any throw (serialization_error, malformed_packet from the output cursor) is an obligation failure: serializing an accepted packet is total */
//@ include lib/endian.h
//@ include lib/pdu_real.h
//@ include lib/ims_real.h
//@ include lib/oms_real.h
//@ enum include/tins/pdu.h PDUType prefix PT_
%(clsdefs)s
//@ include lib/dispatch_real.h
%(pre)s
%(structs)s
typedef struct { PDU_BASE; %(members)s } %(cls)s;
%(funcs)s
//@ func %(hs_where)s %(cls)s::header_size
sig: static uint32_t %(cls)s_header_size(const %(cls)s* this)
class: %(cls)s %(hdr)s
%(memberlist)s
%(hs_rules)s
//@ endfunc
//@ func %(src)s %(cls)s::%(cls)s match "const uint8_t* buffer, uint32_t total_sz"
sig: static void %(cls)s_ctor(%(cls)s* this, const uint8_t* buffer, uint32_t total_sz)
class: %(cls)s %(hdr)s
%(memberlist)s
%(inits)s
%(ctor_rules)s
//@ endfunc
//@ func %(src)s %(cls)s::write_serialization
sig: static void %(cls)s_write_serialization(%(cls)s* this, uint8_t* buffer, uint32_t total_sz)
class: %(cls)s %(hdr)s
%(memberlist)s
%(ser_rules)s
%(mutants)s
//@ endfunc
size_t G_k;   /* plain pipeline: statics start at zero, so the ghost index is drawn in the harness */
void h(void) {
  G_k = nondet_size_t();
  uint32_t n = nondet_uint32_t(); __CPROVER_assume(n <= 65535);
  uint8_t* b = malloc(n); __CPROVER_assume(b != NULL);
#define WB(i) uint8_t W_b##i = nondet_uint8_t(); if (n > i) b[i] = W_b##i;   /* named witnesses for the replay driver */
  WB(0) WB(1) WB(2) WB(3) WB(4) WB(5) WB(6) WB(7) WB(8) WB(9) WB(10) WB(11) WB(12) WB(13) WB(14) WB(15) WB(16) WB(17) WB(18) WB(19) WB(20) WB(21) WB(22) WB(23)
  uint32_t W_n = n;
  %(cls)s* p = malloc(sizeof(%(cls)s)); __CPROVER_assume(p != NULL);
  p->pdu_base_.inner_pdu_ = NULL; p->pdu_base_.parent_pdu_ = NULL; p->pdu_base_.type_ = CLS_%(cls)s;
  %(parent)s
  G_parsing_done = 0;
  %(cls)s_ctor(p, b, n);                                   /* accepted inputs only: a throw ends the path */
  G_parsing_done = 1;
  PDU* c = TINS_INNER(p);
  uint32_t hs = %(cls)s_header_size(p);
  uint32_t ps = c ? c->size_ : 0;
  %(accounting)s
  __CPROVER_assert(c == NULL || c->src_ == b + hs, "the payload is the bytes after the header");
  uint32_t tr = %(trailer)s;
  uint32_t m = hs + ps + tr;
  uint8_t* y = malloc(m); __CPROVER_assume(y != NULL);
  uint8_t y0 = y[G_k < m ? G_k : 0];
  %(cls)s_write_serialization(p, y, m);
  %(asserts)s
  if (G_k >= hs && G_k < hs + ps) __CPROVER_assert(y[G_k] == y0, "the header serializer leaves the payload area to the payload");
  if (G_k >= hs + ps && G_k < m) __CPROVER_assert(y[G_k] == 0, "alignment padding is zero");
  TINS_REACH("post");
}
'''

GET = '//@ func %(where)s %(cls)s::%(name)s match "%(name)s() const"\nsig: static %(ret)s %(cls)s_%(name)s(const %(cls)s* this)\nclass: %(cls)s %(hdr)s\n//@ endfunc'
SET = '//@ func %(src)s %(cls)s::%(name)s match "%(match)s"\nsig: static void %(cls)s_%(name)s_set(%(cls)s* this, %(pt)s %(pn)s)\nclass: %(cls)s %(hdr)s\n//@ endfunc'

ETH_RULES = ('rule?: Constants::Ethernet::e flag ==> int flag\nrule?: Constants::Ethernet::(\\w+) ==> ETH_\\1\nrule?: \\(\\(uint16_t\\)\\(flag\\)\\) ==> (uint16_t)flag\n'
             'rule?: \\bPDUType type\\b ==> int type\nrule?: const PDUType (\\w+) ==> const int \\1')

# tag assertions for an EtherType-tagged header: TAGOFF = offset of the 2-byte big-endian tag
ETH_ASSERTS = '''int ct = c ? c->type_ : -1;
  int et = c ? Internals_pdu_flag_to_ether_type(ct) : ETH_UNKNOWN;
  _Bool tagbyte = (G_k == %(off)d || G_k == %(off)d + 1);
  if (G_k < hs && !tagbyte) __CPROVER_assert(y[G_k] == b[G_k], "every non-derived header byte is written back as parsed");
  uint16_t tag_in = (uint16_t)((b[%(off)d] << 8) | b[%(off)d + 1]), tag_out = (uint16_t)((y[%(off)d] << 8) | y[%(off)d + 1]);
  if (c && et == ETH_UNKNOWN) __CPROVER_assert(tag_out == tag_in, "the next-protocol tag survives when the payload class has no tag of its own");
  if (c && et != ETH_UNKNOWN) __CPROVER_assert(tins_ether_dispatch_class(tag_out) == tins_ether_dispatch_class(tag_in), "the derived tag dispatches to the same payload class as the parsed one");
  %(extra)s'''

TABLE = [
 dict(cls='EthernetII', src='src/ethernetII.cpp', hdr='include/tins/ethernetII.h', structs=['ethernet_header'], members='ethernet_header header_;',
      getters=[('payload_type', 'uint16_t')], setters=[('payload_type', 'uint16_t new_payload_type', 'uint16_t', 'new_payload_type')],
      xfuncs='//@ func src/ethernetII.cpp EthernetII::trailer_size\nsig: static uint32_t EthernetII_trailer_size(const EthernetII* this)\nclass: EthernetII include/tins/ethernetII.h\n//@ endfunc',
      ser_rules=ETH_RULES + '\nrule: const PPPoE\\* pppoe = [^;]*;\\s*flag = \\(pppoe->code\\(\\) == 0\\) ==> flag = (TINS_INNER(this)->aux_ == 0) /* aux_ of a PPPoE child: its code() */\nrule: PDU_v_inner_pdu\\(TINS_INNER\\(this\\)\\)->pdu_type\\(\\) ==> PDU_v_pdu_type(PDU_v_inner_pdu(TINS_INNER(this)))\nrule: EthernetII_payload_type\\(this, ==> EthernetII_payload_type_set(this,',
      trailer='EthernetII_trailer_size(p)',
      asserts=ETH_ASSERTS % dict(off=12, extra='if (!c) __CPROVER_assert(tag_out == 0, "without a payload the tag is not required to survive (libtins writes 0)");'),
      mutants='mutant: if \\(flag != Constants::Ethernet::UNKNOWN\\) \\{\\s*payload_type ==> { payload_type'),
 dict(cls='Dot1Q', src='src/dot1q.cpp', hdr='include/tins/dot1q.h', structs=['dot1q_header'], members='dot1q_header header_; _Bool append_padding_;', inits='inits: lower',
      getters=[('payload_type', 'uint16_t')], setters=[('payload_type', 'uint16_t new_type', 'uint16_t', 'new_type')],
      xfuncs='//@ func src/dot1q.cpp Dot1Q::trailer_size\nsig: static uint32_t Dot1Q_trailer_size(const Dot1Q* this)\nclass: Dot1Q include/tins/dot1q.h\n//@ endfunc',
      ser_rules=ETH_RULES + '\nrule: Dot1Q_payload_type\\(this, ==> Dot1Q_payload_type_set(this,\nrule?: Dot1Q_payload_type\\(this, 0\\) ==> Dot1Q_payload_type_set(this, 0)',
      trailer='Dot1Q_trailer_size(p)',
      asserts=ETH_ASSERTS % dict(off=2, extra=''),
      mutants='mutant: if \\(flag != Constants::Ethernet::UNKNOWN\\) \\{\\s*payload_type ==> { payload_type'),
 dict(cls='SNAP', src='src/snap.cpp', hdr='include/tins/snap.h', structs=['snap_header'], members='snap_header snap_;',
      getters=[('eth_type', 'uint16_t')],
      ser_rules=ETH_RULES, trailer='0', asserts=ETH_ASSERTS % dict(off=6, extra=''),
      mutants='mutant: if \\(flag != Constants::Ethernet::UNKNOWN\\) \\{\\s*snap_ ==> { snap_'),
 dict(cls='SLL', src='src/sll.cpp', hdr='include/tins/sll.h', structs=['sll_header'], members='sll_header header_;',
      getters=[('protocol', 'uint16_t')], setters=[('protocol', 'uint16_t new_protocol', 'uint16_t', 'new_protocol')],
      ser_rules=ETH_RULES + '\nrule: SLL_protocol\\(this, ==> SLL_protocol_set(this,', trailer='0', asserts=ETH_ASSERTS % dict(off=14, extra=''),
      mutants='mutant: if \\(flag != Constants::Ethernet::UNKNOWN\\) \\{\\s*protocol ==> { protocol'),
 dict(cls='Dot3', src='src/dot3.cpp', hdr='include/tins/dot3.h', structs=['dot3_header'], members='dot3_header header_;',
      xfuncs='static uint32_t Dot3_size(const Dot3* this);',
      post_funcs='static uint32_t Dot3_size(const Dot3* this) { return Dot3_header_size(this) + (TINS_INNER(this) ? TINS_INNER(this)->size_ : 0); }   /* PDU::size(): header_size() + inner sizes (C02) */',
      ctor_rules='rule?: new Tins::LLC\\( ==> new_LLC(',
      ser_rules='rule: \\bsize\\(\\) ==> Dot3_size(this)', trailer='0',
      asserts='''_Bool lenbyte = (G_k == 12 || G_k == 13);
  if (G_k < hs && !lenbyte) __CPROVER_assert(y[G_k] == b[G_k], "every non-derived header byte is written back as parsed");
  __CPROVER_assert((uint32_t)((y[12] << 8) | y[13]) == ps, "the 802.3 length field is the payload length");''',
      mutants='mutant: size\\(\\) - sizeof\\(header_\\) ==> size()'),
 dict(cls='MPLS', src='src/mpls.cpp', hdr='include/tins/mpls.h', structs=['mpls_header'], members='mpls_header header_;',
      getters=[('bottom_of_stack', 'uint8_t')], setters=[('bottom_of_stack', 'small_uint<1> value', 'uint8_t', 'value')],
      parent='_Bool W_has_parent = nondet_bool(); if (W_has_parent) { PDU* par = malloc(sizeof(PDU)); __CPROVER_assume(par != NULL); p->pdu_base_.parent_pdu_ = par; }',
      ctor_rules='rule?: new Tins::(\\w+)\\( ==> new_\\1(\nrule?: new MPLS\\( ==> new_MPLS(',
      ser_rules='rule: MPLS_bottom_of_stack\\(this, 1\\) ==> MPLS_bottom_of_stack_set(this, 1)', trailer='0',
      asserts='''_Bool sbyte = (G_k == 2);
  if (G_k < hs && !sbyte) __CPROVER_assert(y[G_k] == b[G_k], "every non-derived header byte is written back as parsed");
  __CPROVER_assert((y[2] & 0xfe) == (b[2] & 0xfe), "label, traffic class keep their bits around the S bit");
  if (c && c->type_ == PT_MPLS) __CPROVER_assert((y[2] & 1) == (b[2] & 1), "an inner label keeps its bottom-of-stack bit (0)");
  if (c && c->type_ != PT_MPLS) __CPROVER_assert((y[2] & 1) == 1, "the last label has the bottom-of-stack bit, as it had when parsed");''',
      mutants='mutant: inner_pdu\\(\\)->pdu_type\\(\\) != PDU::MPLS ==> inner_pdu()->pdu_type() == PDU::MPLS'),
 dict(cls='Loopback', src='src/loopback.cpp', hdr='include/tins/loopback.h', structs=[], members='uint32_t family_;',
      pre='enum { PF_INET = 2, PF_INET6 = 10, PF_LLC = 26 };   /* <sys/socket.h> on this platform (Linux) */',
      ctor_rules='rule?: new Tins::(\\w+)\\( ==> new_\\1(',
      ser_rules='rule: tins_cast<const Tins::(\\w+)\\*>\\(TINS_INNER\\(this\\)\\) ==> (TINS_INNER(this) && TINS_INNER(this)->type_ == CLS_\\1) /* tins_cast<T*>: pdu && T::pdu_flag == pdu->pdu_type() */',
      trailer='0',
      asserts='''uint32_t fam_in, fam_out; memcpy(&fam_in, b, 4); memcpy(&fam_out, y, 4);
  if (c) __CPROVER_assert(tins_loopback_class(fam_out) == tins_loopback_class(fam_in), "the family word dispatches to the same payload class as the parsed one");
  if (c && c->type_ == PT_RAW) __CPROVER_assert(fam_out == fam_in, "an unrecognised family value survives");''',
      mutants='mutant: family_ = PF_INET6; ==> family_ = PF_INET;'),
]
for simple, struct, extra in (('ARP', 'arp_header', ''), ('VXLAN', 'vxlan_header', ''), ('STP', 'stp_header', 'pvt_bpdu_id')):
    TABLE.append(dict(hs_where=('include/tins/vxlan.h' if simple == 'VXLAN' else 'src/%s.cpp' % simple.lower()),
                      accounting=('__CPROVER_assert(c == NULL && hs <= n, "an STP frame has no payload layer: bytes after the BPDU are ignored");' if simple == 'STP' else '__CPROVER_assert(hs + ps == n, "header and payload account for every accepted byte");'),
                      cls=simple, src='src/%s.cpp' % simple.lower(), hdr='include/tins/%s.h' % simple.lower(), structs=([extra] if extra else []) + [struct], members='%s header_;' % struct,
                      ctor_rules='rule?: new Tins::(\\w+)\\( ==> new_\\1(\nrule?: new (RawPDU|EthernetII)\\( ==> new_\\1(\nrule?: Internals_pdu_from_flag\\(PT_ETHERNET_II, ==> new_EthernetII(', ser_rules='', trailer='0',
                      asserts='if (G_k < hs) __CPROVER_assert(y[G_k] == b[G_k], "every header byte is written back as parsed");',
                      mutants='mutant: stream\\.write\\(header_\\); ==> header_ = header_; stream.skip(sizeof(header_));'))

TABLE.append(dict(cls='LLC', src='src/llc.cpp', hdr='include/tins/llc.h', structs=['llchdr', 'info_control_field', 'super_control_field', 'un_control_field'],
      members='llchdr header_; uint8_t control_field_length_; union { info_control_field info; super_control_field super; un_control_field unnumbered; } control_field; int type_; uint8_t information_field_length_;',
      pre='typedef int Format; enum { INFORMATION = 0, SUPERVISORY = 1, UNNUMBERED = 3 };   /* LLC::Format (llc.h) */\n#define new_STP(p, n) tins_new_child_t(CLS_STP, (p), (n))',
      memberlist='members: header_ control_field_length_ control_field type_ information_field_length_ information_fields_',
      xfuncs='\n'.join(['//@ func include/tins/llc.h LLC::%s match "%s() "\nsig: static uint8_t LLC_%s(const LLC* this)\nclass: LLC include/tins/llc.h\nMEMBERS\n//@ endfunc' % (g, g, g) for g in ('dsap', 'ssap', 'type')] +
                       ['//@ func src/llc.cpp LLC::%s match "uint8_t new_%s"\nsig: static void LLC_%s_set(LLC* this, uint8_t new_%s)\nclass: LLC include/tins/llc.h\nMEMBERS\n//@ endfunc' % (g, g, g, g) for g in ('dsap', 'ssap')] +
                       ['//@ func src/llc.cpp LLC::type match "LLC::Format type"\nsig: static void LLC_type_set(LLC* this, Format type)\nclass: LLC include/tins/llc.h\nMEMBERS\nrule?: \\bLLC(?:::|_)(INFORMATION|SUPERVISORY|UNNUMBERED)\\b ==> \\1\n//@ endfunc']),
      ctor_rules='rule?: new Tins::(\\w+)\\( ==> new_\\1(\nrule?: \\bLLC(?:::|_)(INFORMATION|SUPERVISORY|UNNUMBERED)\\b ==> \\1\nrule: LLC_type\\(this, ==> LLC_type_set(this,',
      ser_rules='rule: LLC_dsap\\(this, ==> LLC_dsap_set(this,\nrule: LLC_ssap\\(this, ==> LLC_ssap_set(this,\nrule?: \\bLLC(?:::|_)(INFORMATION|SUPERVISORY|UNNUMBERED)\\b ==> \\1\nrule: for \\(field_list::const_iterator it = .*?\\n\\t?\\s*\\} ==> __CPROVER_assert(this->information_field_length_ == 0, "a parsed LLC has no information fields (the constructor creates none)");',
      trailer='0',
      asserts='if (G_k < hs && !(c && c->type_ == CLS_STP && G_k < 2)) __CPROVER_assert(y[G_k] == b[G_k], "every header byte (DSAP, SSAP, control field) is written back as parsed");\n  if (c && c->type_ == CLS_STP) __CPROVER_assert(y[0] == 0x42 && y[1] == 0x42 && b[0] == 0x42 && b[1] == 0x42, "an STP payload is announced by SAP 0x42 on both sides, as it was when parsed");',
      mutants='mutant: case LLC::SUPERVISORY:\\s*stream\\.write\\(control_field\\.super\\); ==> case LLC::SUPERVISORY: stream.write(control_field.unnumbered);'))

TABLE.append(dict(cls='IPSecESP', src='src/ipsec.cpp', hdr='include/tins/ipsec.h', structs=[], pre='//@ struct include/tins/ipsec.h ipsec_header as ipsecesp_header nth 1',
      members='ipsecesp_header header_;', ctor_rules='rule?: new Tins::(\\w+)\\( ==> new_\\1(', ser_rules='rule?: OMS output; ==> OMS output;', trailer='0',
      asserts='if (G_k < hs) __CPROVER_assert(y[G_k] == b[G_k], "every header byte (SPI, sequence number) is written back as parsed");',
      mutants='mutant: output\\.write\\(header_\\); ==> header_.seq_number = 0; output.write(header_);'))
TABLE.append(dict(cls='UDP', src='src/udp.cpp', hdr='include/tins/udp.h', structs=['udp_header'], members='udp_header header_;',
      setters=[('length', 'uint16_t new_len', 'uint16_t', 'new_len')],
      ctor_rules='rule?: new Tins::(\\w+)\\( ==> new_\\1(',
      ser_rules='rule: UDP_length\\(this, ==> UDP_length_set(this,\nrule: uint32_t checksum = 0;.*?(?=\\}\\s*$) ==> { uint16_t ck_ = nondet_uint16_t(); memcpy(buffer + 6, &ck_, 2); } /* checksum over the pseudo header: derived field, C05 */\n',
      trailer='0',
      asserts='_Bool derived = (G_k >= 4 && G_k < 8);   /* length, checksum */\n  if (G_k < hs && !derived) __CPROVER_assert(y[G_k] == b[G_k], "source and destination port are written back as parsed");\n  __CPROVER_assert((uint32_t)((y[4] << 8) | y[5]) == (uint16_t)(8 + ps), "the UDP length field is header plus payload");',
      mutants='mutant: sizeof\\(udp_header\\) \\+ inner_pdu\\(\\)->size\\(\\) ==> inner_pdu()->size()'))


def generate(outdir, tier):
    flags = class_flags()
    clsdefs = '\n'.join('#define CLS_%s PT_%s' % kv for kv in sorted(flags.items()))
    paths = []
    for e in TABLE:
        cls = e['cls']
        d = dict(cls=cls, lc=cls.lower(), src=e['src'], hdr=e['hdr'], members=e['members'], clsdefs=clsdefs, pre=e.get('pre', ''),
                 structs='\n'.join('//@ struct %s %s' % (e['hdr'], s) for s in e['structs']),
                 inits=e.get('inits', ''), ctor_rules=e.get('ctor_rules', ''), ser_rules=e.get('ser_rules', ''), mutants=e.get('mutants', ''),
                 hs_rules=e.get('hs_rules', ''), memberlist=e.get('memberlist', ''), hs_where=e.get('hs_where', e['src']),
                 accounting=e.get('accounting', '__CPROVER_assert(hs + ps == n, "header and payload account for every accepted byte");'), trailer=e['trailer'], asserts=e['asserts'], parent=e.get('parent', ''),
                 xanch=''.join(', %s::%s' % (cls, g[0]) for g in e.get('getters', [])))
        fs = [GET % dict(where=e['hdr'], cls=cls, name=g[0], ret=g[1], hdr=e['hdr']) for g in e.get('getters', [])]
        fs += [SET % dict(src=e['src'], cls=cls, name=s[0], match=s[1], pt=s[2], pn=s[3], hdr=e['hdr']) for s in e.get('setters', [])]
        if e.get('xfuncs'):
            fs.append(e['xfuncs'])
        d['funcs'] = '\n'.join(fs).replace('MEMBERS', e.get('memberlist', ''))
        text = HEAD % d
        if e.get('post_funcs'):
            text = text.replace('//@ func %s %s::%s match "const uint8_t* buffer' % (e['src'], cls, cls), e['post_funcs'] + '\n//@ func %s %s::%s match "const uint8_t* buffer' % (e['src'], cls, cls))
        p = os.path.join(outdir, 'roundtrip_%s.unit' % cls.lower())
        with open(p, 'w') as f:
            f.write(text)
        paths.append(p)
    return paths
