"""tcp.option_list_wire_image: the real TCP::write_serialization (no parent layer: the checksum is left to C05) over two arbitrary
options, read back with the grammar of TCP's parser: kind; kinds above NOP carry a length octet that counts kind + length + data;
the list is padded to 32-bit words and data offset announces exactly that.  Data of at most MAXLEN octets (quick 6, thorough 16)."""
import os

T = r'''#! unit: tcp.option_list_wire_image
#! property: C03
#! mode: bounded
#! bound: two options, each with at most %(maxlen)d data octets
#! pipeline: plain
#! entry: h
#! cbmc: --unwind %(unwind)d --unwinding-assertions
#! allow-exc: none
#! unreach: TCP_write_serialization.L1
#! anchors: TCP::write_serialization, TCP::header_size, TCP::write_option, TCP::calculate_options_size, TCP::pad_options_size, TCP::checksum(uint16_t) (src/tcp.cpp), PDUOption accessors (include/tins/pdu_option.h), OutputMemoryStream methods (include/tins/memory_helpers.h)
#! assumed: the option vector holds two arbitrary options as the parser or add_option creates them (length field == stored size <= %(maxlen)d; the first one is not EOL, behind which the parser stops reading); no parent layer, so the checksum branch is not taken (checksum: C02 tcp.write_serialization / C05)
#! replay: c03_option_lists
//@ include lib/endian.h
//@ include lib/oms_real.h
//@ include lib/opt.h
typedef struct { size_t n; OPT e[2]; } OPTV;
//@ struct include/tins/tcp.h flags_type
//@ struct include/tins/tcp.h tcp_header
//@ enum include/tins/tcp.h OptionTypes
typedef struct { tcp_header header_; OPTV options_; } TCP;
typedef struct { int dummy; } IPx;
static const IPx* tins_cast_none(const void* p) { return NULL; }
//@ func src/tcp.cpp TCP::checksum match "uint16_t new_check"
sig: static void TCP_checksum_set(TCP* this, uint16_t new_check)
class: TCP include/tins/tcp.h
//@ endfunc
//@ func src/tcp.cpp TCP::calculate_options_size
sig: static uint32_t TCP_calculate_options_size(const TCP* this)
class: TCP include/tins/tcp.h
members: header_ options_
rule: for \(options_type::const_iterator iter = this->options_\.begin\(\); iter != this->options_\.end\(\); \+\+iter\) ==> for (const OPT* iter = &this->options_.e[0]; iter != &this->options_.e[0] + this->options_.n; ++iter)
rule: const option& opt = \*iter; ==> const OPT* opt = iter;
rule: opt\.option\(\) ==> OPT_option(opt)
rule: opt\.data_size\(\) ==> OPT_data_size(opt)
//@ endfunc
//@ func src/tcp.cpp TCP::pad_options_size
sig: static uint32_t TCP_pad_options_size(const TCP* this, uint32_t size)
class: TCP include/tins/tcp.h
//@ endfunc
//@ func src/tcp.cpp TCP::header_size
sig: static uint32_t TCP_header_size(const TCP* this)
class: TCP include/tins/tcp.h
//@ endfunc
//@ func src/tcp.cpp TCP::write_option
sig: static void TCP_write_option(TCP* this, const OPT* opt, OMS* stream)
class: TCP include/tins/tcp.h
rule: stream\.write<uint8_t>\(opt\.option\(\)\); ==> OMS_write_uint8_t(stream, (uint8_t)OPT_option(opt));
rule: opt\.option\(\) ==> OPT_option(opt)
rule: opt\.length_field\(\) ==> OPT_length_field(opt)
rule: stream\.write\(length\); ==> OMS_write_uint8_t(stream, length);
rule: stream\.write\(opt\.data_ptr\(\), opt\.data_size\(\)\); ==> OMS_write_buf(stream, OPT_data_ptr(opt), OPT_data_size(opt));
rule: opt\.data_size\(\) ==> OPT_data_size(opt)
mutant: length \+= \(sizeof\(uint8_t\) << 1\); ==> length += sizeof(uint8_t);
//@ endfunc
//@ func src/tcp.cpp TCP::write_serialization
sig: static void TCP_write_serialization(TCP* this, uint8_t* buffer, uint32_t total_sz)
class: TCP include/tins/tcp.h
members: header_ options_
rule: TCP_checksum\(this, ==> TCP_checksum_set(this,
rule: for \(options_type::const_iterator it = this->options_\.begin\(\); it != this->options_\.end\(\); \+\+it\) ==> for (const OPT* it = &this->options_.e[0]; it != &this->options_.e[0] + this->options_.n; ++it)
rule: TCP_write_option\(this, \*it, stream\) ==> TCP_write_option(this, it, &stream)
rule: const PDU\* parent = [^;]*; ==> const void* parent = NULL; /* no parent layer in this unit */
rule: if \(const Tins::IP\* ip_packet = tins_cast<const Tins::IP\*>\(parent\)\) ==> const IPx* ip_packet = tins_cast_none(parent); const IPx* ipv6_packet = tins_cast_none(parent); if (ip_packet)
rule: else if \(const Tins::IPv6\* ipv6_packet = tins_cast<const Tins::IPv6\*>\(parent\)\) ==> else if (ipv6_packet)
rule: check = Utils_pseudoheader_checksum\([^;]*; ==> check = nondet_uint32_t();
rule: \(\(tcp_header\*\)buffer\)->check = this->header_\.check; ==> memcpy(buffer + 16, &this->header_.check, 2);
//@ endfunc
#define MAXLEN %(maxlen)d
size_t G_k;
static uint32_t wire(uint16_t code, uint16_t len) { return code <= 1 ? 1u : 2u + len; }
void h(void) {
  G_k = nondet_size_t();
  TCP* d = malloc(sizeof(TCP)); __CPROVER_assume(d != NULL);
  uint16_t W_code[2]; uint16_t W_len[2]; uint8_t data[2][MAXLEN];
  uint32_t sum = 0;
  for (size_t i = 0; i < 2; ++i) {
    W_code[i] = nondet_uint16_t(); W_len[i] = nondet_uint16_t(); __CPROVER_assume(W_len[i] <= MAXLEN && W_code[i] <= 255);
    if (W_code[i] <= 1) __CPROVER_assume(W_len[i] == 0);      /* EOL and NOP have no data (the parser builds them so) */
    OPT* o = &d->options_.e[i];
    o->option_ = W_code[i]; o->size_ = W_len[i]; o->real_size_ = W_len[i]; o->data_ = data[i];
    sum += wire(W_code[i], W_len[i]);
  }
  __CPROVER_assume(W_code[0] != 0);                            /* the parser stops at EOL: an option behind it is not part of the list it reads */
  d->options_.n = 2;
  uint32_t padded = (sum + 3u) & ~3u;
  uint32_t sz = 20u + padded;
  __CPROVER_assert(TCP_header_size(d) == sz, "header_size() is the number of octets write_serialization writes (C02: size-exact)");
  uint8_t* v = malloc(sz); __CPROVER_assume(v != NULL);
  TCP_write_serialization(d, v, sz);
  __CPROVER_assert((uint32_t)(v[12] >> 4) * 4 == sz, "data offset announces the fixed header plus the padded options (C05)");
  /* read back with the grammar of TCP::TCP(buffer) */
  uint32_t pos = 20;
  for (size_t i = 0; i < 2; ++i) {
    __CPROVER_assert(pos < sz, "an option kind follows");
    uint8_t kind = v[pos]; uint32_t used = 1; uint32_t len = 0;
    if (kind > 1) { __CPROVER_assert(pos + 1 < sz, "a length octet follows"); __CPROVER_assert(v[pos + 1] >= 2, "the length octet counts kind and length octets too"); len = (uint32_t)v[pos + 1] - 2; used = 2 + len; }
    __CPROVER_assert(kind == W_code[i], "every option of the list is written in order: kind");
    __CPROVER_assert(len == W_len[i], "every option of the list is written in order: length");
    if (G_k < W_len[i]) __CPROVER_assert(v[pos + 2 + G_k] == data[i][G_k], "every option of the list is written in order: data");
    pos += used;
  }
  __CPROVER_assert(pos == 20 + sum, "the options occupy exactly the octets calculate_options_size counted");
  if (G_k < padded - sum) __CPROVER_assert(v[20 + sum + G_k] == 0, "the list is padded to a 32-bit boundary with EOL octets");
  TINS_REACH("post");
}
'''


def generate(outdir, tier):
    maxlen = 16 if tier == 'thorough' else 6
    p = os.path.join(outdir, 'tcp_option_list.unit')
    with open(p, 'w') as f:
        f.write(T % dict(maxlen=maxlen, unwind=maxlen + 14))
    return [p]
