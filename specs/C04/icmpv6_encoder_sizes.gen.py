"""C04: every typed ICMPv6 option encoder builds an option the wire can represent: type + length octets + data is a whole
number of 8-octet units (RFC 4861 4.6), because ICMPv6::write_option stores (data + 2) / 8 in the length octet and the parser
reads length * 8 - 2 data octets (icmpv6.write_option_wire_image).  For each encoder the statements that compute the size of
its scratch buffer are extracted (everything up to and including the buffer's declaration; the writes into the buffer are
dropped: contents are the typed inverse units' business) and run for every size of the variable-length member."""
import os

T = r'''#! unit: icmpv6.encoder_size_%(lc)s
#! property: C04
#! mode: proof
#! pipeline: plain
#! entry: h
#! anchors: ICMPv6::%(fn)s (src/icmpv6.cpp): the size of the option it builds, ICMPv6::get_option_padding
#! assumed: the option's data size is the size the scratch buffer is declared with (std::vector<uint8_t> buffer(n) / uint8_t buffer[n], handed whole to option(type, begin, end)); statements after the declaration write into the buffer and are dropped here; variable-length members of at most 2000 octets
#! replay: c04_icmpv6
typedef struct { int dummy; } ICMPv6;
typedef struct { size_t n_signature, n_addresses, n_prefix, n_servers, n_key, n_hai, n_mn; uint8_t key_hash[16]; } VAL;
size_t G_size; _Bool G_set;
//@ func src/icmpv6.cpp ICMPv6::get_option_padding
sig: static uint8_t ICMPv6_get_option_padding(ICMPv6* this, uint32_t data_size)
//@ endfunc
//@ func src/icmpv6.cpp ICMPv6::%(fn)s%(match)s
sig: static void ICMPv6_%(fn)s(ICMPv6* this, %(params)s)
rule?: \bget_option_padding\( ==> ICMPv6_get_option_padding(this, 
rule?: value\.(\w+)\.size\(\) ==> value->n_\1
rule?: ipaddress_type::address_size ==> 16
rule?: value\.size\(\) ==> 3
rule?: vector<uint8_t> buffer\(([^;]*)\);.*\} ==> G_size = (\1); G_set = 1; }
rule?: uint8_t buffer\[([^;\]]*)\];.*\} ==> G_size = (\1); G_set = 1; }
//@ endfunc
void h(void) {
  ICMPv6 self; VAL* v = malloc(sizeof(VAL)); __CPROVER_assume(v != NULL);
  size_t W_n = nondet_size_t(); __CPROVER_assume(W_n <= 2000);
  v->n_signature = v->n_addresses = v->n_prefix = v->n_servers = v->n_key = v->n_hai = v->n_mn = W_n;
  G_set = 0; G_size = 0;
  ICMPv6_%(fn)s(&self, %(args)s);
  __CPROVER_assert(G_set, "the encoder declares its scratch buffer (extraction found it)");
  __CPROVER_assert((G_size + 2) %% 8 == 0, "%(fn)s builds an option whose wire size (type + length + data) is a multiple of 8 octets: the length octet can represent it and the parser reads back exactly its data");
  TINS_REACH("post");
}
'''

FUNCS = ['add_addr_list', 'rsa_signature', 'timestamp', 'ip_prefix', 'naack', 'map', 'route_info', 'recursive_dns_servers',
         'handover_key_request', 'handover_key_reply', 'handover_assist_info', 'mobile_node_identifier', 'mtu', 'shortcut_limit',
         'new_advert_interval', 'new_home_agent_info']


def generate(outdir, tier):
    out = []
    for fn in FUNCS:
        d = dict(fn=fn, lc=fn, match=' match "const"' if fn != 'add_addr_list' else ' match "uint8_t type"',
                 params='const VAL* value' if fn != 'add_addr_list' else 'uint8_t type, const VAL* value',
                 args='v' if fn != 'add_addr_list' else '0, v')
        p = os.path.join(outdir, 'icmpv6_encoder_size_%s.unit' % fn)
        with open(p, 'w') as f:
            f.write(T % d)
        out.append(p)
    return out
