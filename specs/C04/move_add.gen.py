"""C04: add_option / add_tag by rvalue. The header-inline overloads that take `option&&` must account the option's wire size
BEFORE its payload is moved away (a moved-from PDUOption with a heap payload reports data_size() == 0).  One unit per class,
modelled on dot11_add_option.unit: both overloads, every payload size, the moved-from state as PDUOption's move constructor
leaves it (C12 checks that on the real bodies)."""
import os

T = '''#! unit: %(lc)s.add_%(what)s_bookkeeping
#! property: C04
#! mode: proof
#! pipeline: plain
#! entry: h
#! anchors: %(cls)s::add_%(what)s(const %(what)s&) (%(src)s), %(cls)s::add_%(what)s(%(what)s&&) (%(hdr)s)%(xanch)s
#! assumed: %(vec)s as {count, last element}; push_back(std::move(x)) follows PDUOption's move semantics, which C12 checks on the real bodies: the moved-from option keeps a payload of <= 8 bytes and has data_size() == 0 when its payload was heap-stored (> 8 bytes)
//@ include lib/opt.h
typedef struct { size_t n; OPT last; } OPTV;
static void OPTV_push_copy(OPTV* v, const OPT* o) { v->last = *o; v->n++; }
static void OPTV_push_moved(OPTV* v, OPT* o) { v->last = *o; v->n++; if (o->real_size_ > 8) o->real_size_ = 0; /* PDUOption(PDUOption&&): rhs.real_size_ = 0 for heap payloads */ }
typedef struct { %(size_type)s %(size_member)s; OPTV %(vec)s; } %(cls)s;
%(xfuncs)s
//@ func %(src)s %(cls)s::add_%(what)s match "const %(what)s&"
sig: static void %(cls)s_add_copy(%(cls)s* this, const OPT* %(pn)s)
members: %(size_member)s %(vec)s
class: %(cls)s %(hdr)s
rule: this->%(vec)s\\.push_back\\(%(pn)s\\); ==> OPTV_push_copy(&this->%(vec)s, %(pn)s);
rule?: %(pn)s\\.data_size\\(\\) ==> OPT_data_size(%(pn)s)
//@ endfunc
//@ func %(hdr)s %(cls)s::add_%(what)s match "%(what)s &&"
sig: static void %(cls)s_add_move(%(cls)s* this, OPT* %(pn)s)
members: %(size_member)s %(vec)s
class: %(cls)s %(hdr)s
rule: this->%(vec)s\\.push_back\\(std::move\\(%(pn)s\\)\\); ==> OPTV_push_moved(&this->%(vec)s, %(pn)s);
rule?: %(pn)s\\.data_size\\(\\) ==> OPT_data_size(%(pn)s)
%(mutant)s
//@ endfunc
static uint32_t wire(uint32_t code, uint32_t size) { %(wire)s }
void h(void) {
  %(cls)s* d = malloc(sizeof(%(cls)s)); OPT* o = malloc(sizeof(OPT)); __CPROVER_assume(d && o);
  int W_move = nondet_bool(); uint16_t W_size = nondet_uint16_t(); uint16_t W_code = nondet_uint16_t();
  o->real_size_ = W_size; o->size_ = W_size; o->option_ = W_code;
  __CPROVER_assume(W_size <= %(maxsize)s && d->%(size_member)s <= %(maxcached)s && d->%(vec)s.n <= 1000);
  uint32_t size0 = d->%(size_member)s; size_t n0 = d->%(vec)s.n;
  if (W_move) %(cls)s_add_move(d, o); else %(cls)s_add_copy(d, o);
  __CPROVER_assert(d->%(size_member)s == size0 + wire(W_code, W_size), "add_%(what)s grows the cached serialized size by exactly the wire size of the %(what)s, whether it is copied or moved in");
  __CPROVER_assert(d->%(vec)s.n == n0 + 1 && d->%(vec)s.last.real_size_ == W_size && d->%(vec)s.last.option_ == W_code, "the %(what)s is appended with its data");
  TINS_REACH("post");
}
'''

INTERNAL = '''//@ func %(src)s %(cls)s::internal_add_option
sig: static void %(cls)s_internal_add_option(%(cls)s* this, const OPT* %(pn)s)
members: %(size_member)s %(vec)s
class: %(cls)s %(hdr)s
rule?: %(pn)s\\.data_size\\(\\) ==> OPT_data_size(%(pn)s)
%(iadd_rules)s
//@ endfunc'''

DHCP_X = '''//@ enum include/tins/dhcp.h OptionTypes
//@ func? src/dhcp.cpp is_single_octet_option
sig: static _Bool is_single_octet_option(const OPT* opt)
rule: opt\\.option\\(\\) ==> OPT_option(opt)
rule: opt\\.data_size\\(\\) ==> OPT_data_size(opt)
rule: DHCP::(PAD|END) ==> \\1
//@ endfunc
//@ func? src/dhcp.cpp serialized_option_size
sig: static uint32_t serialized_option_size(const OPT* opt)
rule: opt\\.data_size\\(\\) ==> OPT_data_size(opt)
//@ endfunc
'''

TABLE = [
 dict(cls='ICMPv6', what='option', src='src/icmpv6.cpp', hdr='include/tins/icmpv6.h', size_member='options_size_', size_type='uint32_t', vec='options_', pn='option',
      xfuncs=INTERNAL, iadd_rules='', xanch=', ICMPv6::internal_add_option (src/icmpv6.cpp)', maxsize='255', maxcached='65535',
      wire='return 2u + size;   /* type + length octets + data (RFC 4861) */',
      mutant='mutant: internal_add_option\\(option\\);\\s*options_\\.push_back\\(std::move\\(option\\)\\); ==> options_.push_back(std::move(option)); internal_add_option(option);'),
 dict(cls='DHCP', what='option', src='src/dhcp.cpp', hdr='include/tins/dhcp.h', size_member='size_', size_type='uint32_t', vec='options_', pn='opt',
      xfuncs=DHCP_X + INTERNAL, iadd_rules='rule?: serialized_option_size\\(opt\\) ==> serialized_option_size(opt)', xanch=', DHCP::internal_add_option, serialized_option_size, is_single_octet_option (src/dhcp.cpp)',
      maxsize='255', maxcached='65535',
      wire='return ((code == 0 || code == 255) && size == 0) ? 1u : 2u + size;   /* RFC 2132: PAD and END single octets, others code + length + data */',
      mutant='mutant: internal_add_option\\(opt\\);\\s*options_\\.push_back\\(std::move\\(opt\\)\\); ==> options_.push_back(std::move(opt)); internal_add_option(opt);'),
 dict(cls='PPPoE', what='tag', src='src/pppoe.cpp', hdr='include/tins/pppoe.h', size_member='tags_size_', size_type='uint16_t', vec='tags_', pn='option',
      xfuncs='', xanch='', maxsize='1024', maxcached='30000',
      wire='return 4u + size;   /* 16-bit tag type + 16-bit length + value (RFC 2516 section 4) */',
      mutant='mutant: tags_size_ \\+= (static_cast<uint16_t>\\([^;]*\\));\\s*tags_\\.push_back\\(std::move\\(option\\)\\); ==> tags_.push_back(std::move(option)); tags_size_ += \\1;'),
]


def generate(outdir, tier):
    out = []
    for e in TABLE:
        d = dict(e)
        d['lc'] = e['cls'].lower()
        d['xfuncs'] = e['xfuncs'] % d if e['xfuncs'] else ''
        p = os.path.join(outdir, 'move_add_%s.unit' % d['lc'])
        with open(p, 'w') as f:
            f.write(T % d)
        out.append(p)
    return out
