"""C04: option-list bookkeeping. For each layer class that keeps an option vector and a cached serialized size, add_option and
remove_option are extracted with Internals::find_option and run on an arbitrary list of up to 3 options that satisfies the
invariant `cached size == sum of the options' wire sizes`: the invariant is preserved, add appends, remove erases exactly the
FIRST option of that type and keeps the others in order (look-ups return the first match)."""
import os

T = '''#! unit: %(lc)s.option_list_bookkeeping
#! property: C04
#! mode: bounded
#! bound: lists of at most 3 options before the operation (4 after an add); every option type, data size and order; --unwind 6 with unwinding assertions
#! pipeline: plain
#! entry: h
#! cbmc: --unwind 6 --unwinding-assertions
#! anchors: %(cls)s::add_option, %(cls)s::remove_option%(xanch)s (%(src)s), Internals::find_option (include/tins/pdu_option.h), PDUOption::option / data_size (include/tins/pdu_option.h)
#! assumed: std::vector<option> as an array of at most 4 (type, sizes) entries with push_back / erase(position) (hand-written model); option payload bytes are not modelled (C12 covers PDUOption's storage)
//@ include lib/opt.h
#define NO 4
typedef struct { size_t n; OPT e[NO]; } OPTV;
static void OPTV_push(OPTV* v, const OPT* o) { __CPROVER_assert(v->n < NO, "model capacity"); v->e[v->n++] = *o; }
static void OPTV_erase(OPTV* v, size_t pos) { __CPROVER_assert(pos < v->n, "std::vector::erase: a valid position"); for (size_t i = 0; i < NO - 1; ++i) if (i >= pos && i + 1 < v->n) v->e[i] = v->e[i + 1]; v->n--; }
typedef struct { OPTV options_; uint32_t %(size_member)s; } %(cls)s;
//@ func include/tins/pdu_option.h find_option match "Container& cont, typename Option::option_type type"
sig: static size_t Internals_find_option(OPTV* cont, int type)
rule: typename Container::iterator iter; ==> size_t iter;   /* iterator as index; end() == n */
rule: iter = cont\\.begin\\(\\) ==> iter = 0
rule: iter != cont\\.end\\(\\) ==> iter != cont->n
rule: iter->option\\(\\) ==> OPT_option(&cont->e[iter])
mutant: iter->option\\(\\) == type ==> iter->option() != type
//@ endfunc
static size_t %(cls)s_search_option_iterator(%(cls)s* this, int type) { return Internals_find_option(&this->options_, type); }   /* %(cls)s::search_option_iterator: return Internals::find_option<option>(options_, type) */
%(xfuncs)s
//@ func %(src)s %(cls)s::remove_option
sig: static _Bool %(cls)s_remove_option(%(cls)s* this, int %(rmp)s)
class: %(cls)s %(hdr)s
members: options_ %(size_member)s
rule: options_type::iterator iter = ==> size_t iter =
rule: iter == this->options_\\.end\\(\\) ==> iter == this->options_.n
rule?: iter->data_size\\(\\) ==> OPT_data_size(&this->options_.e[iter])
rule?: iter->length_field\\(\\) ==> OPT_length_field(&this->options_.e[iter])
rule?: std::swap\\(\\*iter, this->options_\\.back\\(\\)\\); ==> { OPT t_ = this->options_.e[iter]; this->options_.e[iter] = this->options_.e[this->options_.n - 1]; this->options_.e[this->options_.n - 1] = t_; }
rule?: \\*iter\\b ==> &this->options_.e[iter]
rule?: this->options_\\.erase\\(iter\\); ==> OPTV_erase(&this->options_, iter);
## other ways a rewritten remove_option may drop the element (optional; what they do to the ORDER is what the harness checks)
rule?: this->options_\\.pop_back\\(\\); ==> { __CPROVER_assert(this->options_.n > 0, "std::vector::pop_back on a non-empty vector"); this->options_.n--; }
rule?: this->options_\\.end\\(\\) ==> this->options_.n
%(rm_mutant)s
//@ endfunc
%(add_funcs)s
static uint32_t wire(const OPT* o) { %(wire)s }
static uint32_t total(const OPTV* v) { uint32_t s = 0; for (size_t i = 0; i < NO; ++i) if (i < v->n) s += wire(&v->e[i]); return s; }
void h(void) {
  %(cls)s* p = malloc(sizeof(%(cls)s)); OPT* o = malloc(sizeof(OPT)); __CPROVER_assume(p && o);
  __CPROVER_assume(p->options_.n <= NO - 1 && o->real_size_ <= 1024);
  for (size_t i = 0; i < NO; ++i) __CPROVER_assume(p->options_.e[i].real_size_ <= 1024);
  __CPROVER_assume(p->%(size_member)s == %(base)s + total(&p->options_));           /* invariant: the cached size is the sum of the wire sizes */
  OPTV before = p->options_; uint32_t size0 = p->%(size_member)s;
  if (nondet_bool()) {
    %(add_call)s
    __CPROVER_assert(p->options_.n == before.n + 1 && p->options_.e[before.n].option_ == o->option_ && p->options_.e[before.n].real_size_ == o->real_size_, "add_option appends the option");
    __CPROVER_assert(p->%(size_member)s == size0 + wire(o) && p->%(size_member)s == %(base)s + total(&p->options_), "add_option keeps the cached size equal to the sum of the wire sizes");
    for (size_t i = 0; i < NO - 1; ++i) if (i < before.n) __CPROVER_assert(p->options_.e[i].option_ == before.e[i].option_ && p->options_.e[i].real_size_ == before.e[i].real_size_, "the options already present keep their place");
  } else {
    int W_type = nondet_int(); __CPROVER_assume(W_type >= 0 && W_type <= 65535);
    size_t first = before.n; for (size_t i = NO - 1; i-- > 0; ) if (i < before.n && before.e[i].option_ == W_type) first = i;
    _Bool r = %(cls)s_remove_option(p, W_type);
    __CPROVER_assert(r == (first < before.n), "remove_option reports whether an option of that type was present");
    if (first < before.n) {
      __CPROVER_assert(p->options_.n == before.n - 1, "exactly one option is removed");
      for (size_t i = 0; i < NO - 1; ++i) if (i + 1 < before.n + 0 && i < p->options_.n) __CPROVER_assert(p->options_.e[i].option_ == before.e[i < first ? i : i + 1].option_ && p->options_.e[i].real_size_ == before.e[i < first ? i : i + 1].real_size_, "it is the FIRST option of that type; the others keep their order");
      __CPROVER_assert(p->%(size_member)s == size0 - wire(&before.e[first]), "the cached size shrinks by the removed option's wire size");
    } else __CPROVER_assert(p->options_.n == before.n && p->%(size_member)s == size0, "removing an absent type changes nothing");
    __CPROVER_assert(p->%(size_member)s == %(base)s + total(&p->options_), "remove_option keeps the cached size equal to the sum of the wire sizes");
  }
  TINS_REACH("post");
}
'''

ADD_INTERNAL = '''//@ func %(src)s %(cls)s::internal_add_option
sig: static void %(cls)s_internal_add_option(%(cls)s* this, const OPT* %(pn)s)
class: %(cls)s %(hdr)s
members: options_ %(size_member)s
rule?: %(pn)s\\.data_size\\(\\) ==> OPT_data_size(%(pn)s)
rule?: %(pn)s\\.length_field\\(\\) ==> OPT_length_field(%(pn)s)
%(iadd_rules)s
//@ endfunc
//@ func %(src)s %(cls)s::add_option match "const option&"
sig: static void %(cls)s_add_option(%(cls)s* this, const OPT* %(pn)s)
class: %(cls)s %(hdr)s
members: options_ %(size_member)s
rule: this->options_\\.push_back\\(%(pn)s\\); ==> OPTV_push(&this->options_, %(pn)s);
//@ endfunc'''
ADD_DIRECT = '''//@ func %(src)s %(cls)s::add_option match "const option&"
sig: static void %(cls)s_add_option(%(cls)s* this, const OPT* %(pn)s)
class: %(cls)s %(hdr)s
members: options_ %(size_member)s
rule: this->options_\\.push_back\\(%(pn)s\\); ==> OPTV_push(&this->options_, %(pn)s);
rule?: %(pn)s\\.data_size\\(\\) ==> OPT_data_size(%(pn)s)
rule?: %(pn)s\\.length_field\\(\\) ==> OPT_length_field(%(pn)s)
//@ endfunc'''

TABLE = [
 dict(cls='ICMPv6', src='src/icmpv6.cpp', hdr='include/tins/icmpv6.h', size_member='options_size_', base='0u', pn='option', add=ADD_INTERNAL, iadd_rules='',
      wire='return 2u + o->real_size_;   /* type + length octets + data (RFC 4861 option header) */', xanch=', ICMPv6::internal_add_option',
      rm_mutant='mutant: options_size_ -= static_cast<uint32_t>\\(iter->data_size\\(\\) \\+ sizeof\\(uint8_t\\) \\* 2\\); ==> options_size_ -= static_cast<uint32_t>(iter->data_size());'),
 dict(cls='DHCPv6', src='src/dhcpv6.cpp', hdr='include/tins/dhcpv6.h', size_member='options_size_', base='0u', pn='opt', add=ADD_DIRECT,
      wire='return 4u + o->real_size_;   /* 16-bit code + 16-bit length + data (RFC 8415 section 21.1) */', xanch='', rm_mutant=''),
 dict(cls='Dot11', src='src/dot11/dot11_base.cpp', hdr='include/tins/dot11/dot11_base.h', size_member='options_size_', base='0u', pn='opt', add=ADD_INTERNAL, iadd_rules='',
      wire='return 2u + o->real_size_;   /* element id + length + data (IEEE 802.11 information element) */', xanch=', Dot11::internal_add_option', rm_mutant=''),
 dict(cls='DHCP', src='src/dhcp.cpp', hdr='include/tins/dhcp.h', size_member='size_', base='4u', pn='opt', add=ADD_INTERNAL,
      iadd_rules='rule?: serialized_option_size\\(opt\\) ==> serialized_option_size(opt)',
      wire='return ((o->option_ == 0 || o->option_ == 255) && o->real_size_ == 0) ? 1u : 2u + o->real_size_;   /* RFC 2132: PAD and END are single octets, others code + length + data; the cached size also counts the 4-octet magic cookie */',
      xanch=', DHCP::internal_add_option, is_single_octet_option, serialized_option_size', rm_mutant='',
      xfuncs='//@ enum include/tins/dhcp.h OptionTypes\n//@ func? src/dhcp.cpp is_single_octet_option\nsig: static _Bool is_single_octet_option(const OPT* opt)\nrule: opt\\.option\\(\\) ==> OPT_option(opt)\nrule: opt\\.data_size\\(\\) ==> OPT_data_size(opt)\nrule: DHCP::(PAD|END) ==> \\1\n//@ endfunc\n//@ func? src/dhcp.cpp serialized_option_size\nsig: static uint32_t serialized_option_size(const OPT* opt)\nrule: opt\\.data_size\\(\\) ==> OPT_data_size(opt)\n//@ endfunc'),
dict(cls='TCP', src='src/tcp.cpp', hdr='include/tins/tcp.h', size_member='G_no_cached_size', base='0u', pn='opt', add=ADD_DIRECT,
      wire='return 0u;   /* TCP keeps no cached option size (calculate_options_size walks the vector): only membership and ORDER are decided here */', xanch='', rm_mutant=''),
 dict(cls='IP', src='src/ip.cpp', hdr='include/tins/ip.h', size_member='G_no_cached_size', base='0u', pn='opt', add=ADD_DIRECT, rmp='id',
      wire='return 0u;   /* IP keeps no cached option size: only membership and ORDER are decided here */', xanch='', rm_mutant=''),
]


def generate(outdir, tier):
    paths = []
    for e in TABLE:
        d = dict(e)
        d['lc'] = e['cls'].lower()
        d.setdefault('xfuncs', '')
        d.setdefault('rmp', 'type')
        d['add_funcs'] = e['add'] % d
        d['add_call'] = '%s_add_option(p, o);' % e['cls']
        text = T % d
        if e['cls'] == 'DHCP':
            text = text.replace('rule?: iter->data_size\\(\\) ==> OPT_data_size(&this->options_.e[iter])', 'rule?: iter->data_size\\(\\) ==> OPT_data_size(&this->options_.e[iter])\nrule?: serialized_option_size\\(&this->options_\\.e\\[iter\\]\\) ==> serialized_option_size(&this->options_.e[iter])')
        p = os.path.join(outdir, 'option_list_%s.unit' % d['lc'])
        with open(p, 'w') as f:
            f.write(text)
        paths.append(p)
    return paths
