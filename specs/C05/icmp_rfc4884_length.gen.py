"""icmp.rfc4884_length: the extraction of C02/icmp_serializer_frame.unit (real ICMP::write_serialization and helpers) with a
harness that decides the RFC 4884 length octet: it counts, in 32-bit words, the octets between the end of the ICMP header
and the extension structure (or the padded original datagram when there is no extension structure)."""
import os

HARNESS = r'''
size_t G_ext_off;
void h(void) {
  ICMP* t = malloc(sizeof(ICMP)); __CPROVER_assume(t != NULL); G_this = t;
  uint8_t W_type = nondet_uint8_t(), W_len0 = nondet_uint8_t(); uint32_t W_ext = nondet_uint32_t(), W_inner = nondet_uint32_t();
  t->header_.type = W_type; t->header_.un.rfc4884.length = W_len0; t->G_ext_size = W_ext; t->G_inner_size = W_inner;
  __CPROVER_assume(t->G_ext_size <= 65535 && t->G_inner_size <= 1020);     /* the octet counts words: 255 * 4 */
  __CPROVER_assume(t->G_ext_size == 0 || t->G_ext_size >= 8);
  PDU* inner = malloc(sizeof(PDU)); __CPROVER_assume(inner != NULL);
  t->pdu_base_.inner_pdu_ = t->G_inner_size ? inner : NULL; t->pdu_base_.parent_pdu_ = NULL;
  G_hs = ICMP_header_size(t); G_ps = t->G_inner_size; G_tr = ICMP_trailer_size(t);
  G_total = G_hs + G_ps + G_tr;
  G_buf = malloc(G_total); __CPROVER_assume(G_buf != NULL); G_nwrites = 0; G_ext_off = 0;
  uint8_t len0 = t->header_.un.rfc4884.length;
  _Bool allowed = ICMP_are_extensions_allowed(t);
  ICMP_write_serialization(t, G_buf, G_total);
  uint32_t padded = (G_ps + 3u) & ~3u;
  uint8_t len1 = t->header_.un.rfc4884.length;
  if (!allowed) __CPROVER_assert(len1 == len0, "the octet is only a length for the RFC 4884 message types");
  else if (len0 == 0 && padded <= 128) __CPROVER_assert(len1 == 0, "a length that is not in use stays zero");
  else if (t->G_ext_size != 0) {
    __CPROVER_assert((size_t)len1 * 4 == G_ext_off - G_hs, "RFC 4884 length: the extension structure starts length*4 octets behind the ICMP header");
    __CPROVER_assert(G_ps == 0 || (size_t)len1 * 4 >= 128, "RFC 4884: the original datagram is padded to at least 128 octets before an extension structure");
  }
  else __CPROVER_assert((uint32_t)len1 * 4 == padded, "RFC 4884 length: without an extension structure the octet counts the original datagram padded to 32-bit words, nothing more");
  TINS_REACH("post");
}
'''


def generate(outdir, tier):
    here = os.path.dirname(os.path.abspath(__file__))
    t = open(os.path.join(here, '..', 'C02', 'icmp_serializer_frame.unit')).read()
    t = t[:t.index('void h(void) {')] + HARNESS
    old = '  tins_log_write(buffer, self->G_ext_size);\n}'
    assert old in t
    t = t.replace(old, '  extern size_t G_ext_off; G_ext_off = (size_t)(buffer - G_buf);\n' + old)
    t = t.replace('#! unit: icmp.serializer_frame', '#! unit: icmp.rfc4884_length').replace('#! property: C02', '#! property: C05')
    t = t.replace('#! replay: c02_icmpv6', '#! replay: c05_icmp_length')
    t = t.replace('#! allow-exc: none\n', '')
    assert 'icmp.rfc4884_length' in t
    p = os.path.join(outdir, 'icmp_rfc4884_length.unit')
    with open(p, 'w') as f:
        f.write(t)
    return [p]
