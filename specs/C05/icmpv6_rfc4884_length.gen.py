"""icmpv6.rfc4884_length: the extraction of C02/icmpv6_serializer_frame.unit (real ICMPv6::write_serialization and helpers) with a
harness that decides the RFC 4884 length octet: it counts, in 64-bit words, the octets between the end of the ICMPv6 header
and the extension structure (or the padded original datagram when there is no extension structure)."""
import os

HARNESS = r'''
size_t G_ext_off;
void h(void) {
  ICMPv6* t = malloc(sizeof(ICMPv6)); __CPROVER_assume(t != NULL); G_this = t;
  uint8_t W_type = nondet_uint8_t(), W_len0 = nondet_uint8_t(); uint32_t W_ext = nondet_uint32_t(), W_inner = nondet_uint32_t();
  t->header_.type = W_type; t->header_.rfc4884.length = W_len0; t->G_ext_size = W_ext; t->G_inner_size = W_inner;
  __CPROVER_assume(t->header_.type != MLD2_REPORT && t->header_.type != MGM_QUERY);
  __CPROVER_assume(t->options_size_ <= 65535 && t->G_ext_size <= 65535 && t->G_inner_size <= 2040);     /* the octet counts 64-bit words: 255 * 8 */
  __CPROVER_assume(t->G_ext_size == 0 || t->G_ext_size >= 8);
  PDU* inner = malloc(sizeof(PDU)); __CPROVER_assume(inner != NULL);
  t->pdu_base_.inner_pdu_ = t->G_inner_size ? inner : NULL; t->pdu_base_.parent_pdu_ = nondet_bool() ? inner : NULL;
  G_hs = ICMPv6_header_size(t); G_ps = t->G_inner_size; G_tr = ICMPv6_trailer_size(t);
  G_total = G_hs + G_ps + G_tr;
  G_buf = malloc(G_total); __CPROVER_assume(G_buf != NULL); G_nwrites = 0; G_ext_off = 0;
  uint8_t len0 = t->header_.rfc4884.length;
  _Bool allowed = ICMPv6_are_extensions_allowed(t);
  ICMPv6_write_serialization(t, G_buf, G_total);
  uint32_t padded = (G_ps + 7u) & ~7u;
  uint8_t len1 = t->header_.rfc4884.length;
  if (!allowed) __CPROVER_assert(len1 == len0, "the octet is only a length for the RFC 4884 message types");
  else if (len0 == 0 && padded <= 128) __CPROVER_assert(len1 == 0, "a length that is not in use stays zero");
  else if (t->G_ext_size != 0) {
    __CPROVER_assert((size_t)len1 * 8 == G_ext_off - G_hs, "RFC 4884 length: the extension structure starts length*8 octets behind the ICMPv6 header");
    __CPROVER_assert(G_ps == 0 || (size_t)len1 * 8 >= 128, "RFC 4884: the original datagram is padded to at least 128 octets before an extension structure");
  }
  else __CPROVER_assert((uint32_t)len1 * 8 == padded, "RFC 4884 length: without an extension structure the octet counts the original datagram padded to 64-bit words, nothing more");
  TINS_REACH("post");
}
'''


def generate(outdir, tier):
    here = os.path.dirname(os.path.abspath(__file__))
    t = open(os.path.join(here, '..', 'C02', 'icmpv6_serializer_frame.unit')).read()
    t = t[:t.index('void h(void) {')] + HARNESS
    old = '  tins_log_write(buffer, self->G_ext_size);\n}'
    assert old in t
    t = t.replace(old, '  extern size_t G_ext_off; G_ext_off = (size_t)(buffer - G_buf);\n' + old)
    t = t.replace('#! unit: icmpv6.serializer_frame', '#! unit: icmpv6.rfc4884_length').replace('#! property: C02', '#! property: C05')
    t = t.replace('#! replay: c02_icmpv6', '#! replay: c05_icmp_length')
    t = t.replace('#! allow-exc: none\n', '')
    assert 'icmpv6.rfc4884_length' in t
    p = os.path.join(outdir, 'icmpv6_rfc4884_length.unit')
    with open(p, 'w') as f:
        f.write(t)
    return [p]
