"""dns.encode_name_wire_form: the real DNS::encode_domain_name on every legal textual name of at most L characters (quick 8,
thorough 11): non-empty labels separated by single dots, with or without the trailing dot of the absolute form.  The output is
the RFC 1035 3.1 wire form: length-prefixed labels, exactly one zero octet, and it is the last one; the labels spell the name."""
import os

T = r'''#! unit: dns.encode_name_wire_form
#! property: C10
#! mode: bounded
#! bound: textual names of at most %(L)d characters (every label count and label length that fits)
#! pipeline: plain
#! entry: h
#! cbmc: --unwind %(unwind)d --unwinding-assertions
#! allow-exc: none
#! anchors: DNS::encode_domain_name (src/dns.cpp): the encoder behind add_query / add_answer / add_authority / add_additional
#! assumed: std::string as (characters, size) with find / push_back / append(range) modelled by hand; labels of at most 63 octets and names of at most 255 are the caller's obligation (longer labels are outside this unit's bound anyway)
#! replay: c10_dns
#define L %(L)d
typedef struct { const char* p; size_t n; } STR;
typedef struct { uint8_t p[2 * L + 4]; size_t n; } STRB;
#define STR_NPOS ((size_t)-1)
static size_t STR_find(const STR* s, char c, size_t from) { for (size_t i = 0; i < L; ++i) if (i >= from && i < s->n && s->p[i] == c) return i; return STR_NPOS; }
static void STRB_push(STRB* o, char c) { __CPROVER_assert(o->n < sizeof(o->p), "model capacity"); o->p[o->n++] = (uint8_t)c; }
static void STRB_append(STRB* o, const STR* s, size_t from, size_t to) { __CPROVER_assert(from <= to && to <= s->n, "std::string::append(first, last): a valid range of the name"); for (size_t i = 0; i < L; ++i) if (i >= from && i < to) STRB_push(o, s->p[i]); }
//@ func src/dns.cpp DNS::encode_domain_name
sig: static void DNS_encode_domain_name(const STR* dn, STRB* output)
rule: string output; ==> output->n = 0;
rule: size_t last_index\(0\), index; ==> size_t last_index = 0, index;
rule: dn\.empty\(\) ==> (dn->n == 0)
rule: dn\.find\('\.', ([^)]*)\) ==> STR_find(dn, '.', \1)
rule: string::npos ==> STR_NPOS
rule: output\.push_back\( ==> STRB_push(output, 
rule: output\.append\(dn\.begin\(\) \+ last_index, dn\.begin\(\) \+ index\); ==> STRB_append(output, dn, last_index, index);
rule: output\.append\(dn\.begin\(\) \+ last_index, dn\.end\(\)\); ==> STRB_append(output, dn, last_index, dn->n);
rule: dn\.size\(\) ==> dn->n
rule: return output; ==> return;
//@ endfunc
void h(void) {
  char W_s[L + 1]; for (int i = 0; i <= L; ++i) W_s[i] = nondet_char();
  size_t W_n = nondet_size_t(); __CPROVER_assume(W_n >= 1 && W_n <= L);
  /* a legal textual name: non-empty labels, single dots, an optional trailing dot (absolute form) */
  __CPROVER_assume(W_s[0] != '.');
  for (int i = 0; i < L; ++i) if ((size_t)i < W_n) { __CPROVER_assume(W_s[i] != 0); if (i > 0) __CPROVER_assume(!(W_s[i] == '.' && W_s[i - 1] == '.')); }
  STR dn = { W_s, W_n }; STRB out;
  DNS_encode_domain_name(&dn, &out);
  size_t text_n = (W_s[W_n - 1] == '.') ? W_n - 1 : W_n;     /* the name without the trailing dot */
  /* walk the output as a parser does */
  size_t pos = 0, tpos = 0; _Bool ended = 0;
  for (int k = 0; k < L + 2; ++k) if (!ended) {
    __CPROVER_assert(pos < out.n, "the wire name ends with a zero octet");
    uint8_t len = out.p[pos++];
    if (len == 0) { ended = 1; }
    else {
      __CPROVER_assert(len <= 63 && pos + len <= out.n, "a label is its length octet followed by that many octets");
      if (tpos > 0) { __CPROVER_assert(tpos < text_n && W_s[tpos] == '.', "labels are the dot-separated parts of the name, in order"); ++tpos; }
      for (int j = 0; j < L; ++j) if (j < len) { __CPROVER_assert(tpos < text_n && (uint8_t)W_s[tpos] == out.p[pos] && W_s[tpos] != '.', "labels are the dot-separated parts of the name, in order"); ++tpos; ++pos; }
    }
  }
  __CPROVER_assert(ended && tpos == text_n, "every label of the name is encoded");
  __CPROVER_assert(pos == out.n, "the zero octet that ends the name is the last octet: nothing follows it (a trailing dot only marks the name as absolute)");
  TINS_REACH("post");
}
'''


def generate(outdir, tier):
    L = 11 if tier == "thorough" else 8
    p = os.path.join(outdir, 'encode_domain_name.unit')
    with open(p, 'w') as f:
        f.write(T % dict(L=L, unwind=2 * L + 8))
    return [p]
