"""C11 accessor pairing: every RadioTap setter body and getter body is extracted; the writer/parser calls are replaced by
ghost recorders.  Obligations: a setter hands the writer the field its name says, with exactly as many octets as
RADIOTAP_METADATA gives that field (a shorter value corrupts the layout of every later field); the matching getter looks up
the same field and reads no more octets than the field has."""
import os

# (setter name, C parameter list, getter names, field, note)
FIELDS = [
 ('tsft', 'uint64_t new_tsft', [('tsft', 'uint64_t')], 'TSFT'),
 ('flags', 'FrameFlags new_flags', [('flags', 'FrameFlags')], 'FLAGS'),
 ('rate', 'uint8_t new_rate', [('rate', 'uint8_t')], 'RATE'),
 ('channel', 'uint16_t new_freq, uint16_t new_type', [('channel_freq', 'uint16_t'), ('channel_type', 'uint16_t')], 'CHANNEL'),
 ('dbm_signal', 'int8_t new_dbm_signal', [('dbm_signal', 'int8_t')], 'DBM_SIGNAL'),
 ('dbm_noise', 'int8_t new_dbm_noise', [('dbm_noise', 'int8_t')], 'DBM_NOISE'),
 ('signal_quality', 'uint8_t new_signal_quality', [('signal_quality', 'uint16_t')], 'LOCK_QUALITY'),
 ('antenna', 'uint8_t new_antenna', [('antenna', 'uint8_t')], 'ANTENNA'),
 ('db_signal', 'uint8_t new_db_signal', [('db_signal', 'uint8_t')], 'DB_SIGNAL'),
 ('rx_flags', 'uint16_t new_rx_flags', [('rx_flags', 'uint16_t')], 'RX_FLAGS'),
 ('tx_flags', 'uint16_t new_tx_flags', [('tx_flags', 'uint16_t')], 'TX_FLAGS'),
 ('data_retries', 'uint8_t new_data_retries', [('data_retries', 'uint8_t')], 'DATA_RETRIES'),
 ('xchannel', 'xchannel_type new_xchannel', [('xchannel', 'xchannel_type')], 'XCHANNEL'),
 ('mcs', 'mcs_type new_mcs', [('mcs', 'mcs_type')], 'MCS'),
]

HEAD = '''#! unit: radiotap.accessors
#! property: C11
#! mode: proof
#! pipeline: plain
#! entry: h
#! anchors: RadioTap setters and getters (src/radiotap.cpp l.131-320), add_integral_option (src/radiotap.cpp), RADIOTAP_METADATA (src/utils/radiotap_parser.cpp), RadioTap::PresentFlags (include/tins/radiotap.h)
#! assumed: RadioTap::add_option / RadioTapWriter::write_option insert option.data_size() octets for the field (read in src/utils/radiotap_writer.cpp) and do_find_option returns the field's RADIOTAP_METADATA size octets; both replaced by ghost recorders here
#! replay: c11_radiotap
//@ include lib/endian.h
//@ enum include/tins/radiotap.h PresentFlags
//@ enum include/tins/radiotap.h FrameFlags
//@ struct include/tins/radiotap.h mcs_type
//@ struct include/tins/radiotap.h xchannel_type
typedef struct { uint32_t size; uint32_t alignment; } FieldMetadata;
//@ init src/utils/radiotap_parser.cpp RADIOTAP_METADATA
rule: const RadioTapParser::FieldMetadata RadioTapParser::RADIOTAP_METADATA ==> static const FieldMetadata RADIOTAP_METADATA
//@ endinit
typedef struct { int unused_; } RadioTap;
uint32_t G_set_flag, G_get_flag; size_t G_set_size, G_get_size;
#define TINS_SET(flag, n) do { G_set_flag = (flag); G_set_size = (n); } while (0)
#define TINS_FIND(flag) do { G_get_flag = (flag); } while (0)
#define TINS_READ(dst, off, n) do { size_t e_ = (size_t)(off) + (n); if (e_ > G_get_size) G_get_size = e_; memset((dst), 0, (n)); } while (0)
static uint32_t bit_of(uint32_t flag) { uint32_t b = 0; while (b < 32 && !((flag >> b) & 1)) ++b; return b; }
'''

SETTER = '''//@ func src/radiotap.cpp RadioTap::%(name)s match "%(match)s"
sig: static void RadioTap_%(name)s_set(RadioTap* this, %(params)s)
prerule?: add_integral_option\\(\\*this, (\\w+), ([^;]+)\\); ==> TINS_SET(\\1, sizeof(\\2));
prerule?: add_option\\(RadioTap::option\\((\\w+), sizeof\\(buffer\\), buffer\\)\\); ==> TINS_SET(\\1, sizeof(buffer));
%(mutant)s
//@ endfunc
'''
GETTER = '''//@ func src/radiotap.cpp RadioTap::%(name)s match "%(name)s() const"
sig: static %(ret)s RadioTap_%(name)s_get(const RadioTap* this)
prerule?: return static_cast<FrameFlags>\\(do_find_option\\((\\w+)\\)\\.to<(\\w+)>\\(\\)\\); ==> { TINS_FIND(\\1); \\2 v_; TINS_READ(&v_, 0, sizeof(v_)); return (FrameFlags)v_; }
prerule?: return do_find_option\\((\\w+)\\)\\.to<(\\w+)>\\(\\); ==> { TINS_FIND(\\1); \\2 v_; TINS_READ(&v_, 0, sizeof(v_)); return v_; }
prerule?: const option opt = do_find_option\\((\\w+)\\); ==> TINS_FIND(\\1);
prerule?: memcpy\\(&output, opt\\.data_ptr\\(\\)( \\+ [^,]+)?, ([^;]+)\\); ==> TINS_READ(&output, 0\\1, \\2);
//@ endfunc
'''


def generate(outdir, tier):
    out = [HEAD]
    for name, params, getters, field in FIELDS:
        first = params.split(',')[0].strip()
        mut = 'mutant: add_integral_option\\(\\*this, RX_FLAGS, new_rx_flags\\) ==> add_integral_option(*this, RX_FLAGS, (uint8_t)new_rx_flags)' if name == 'rx_flags' else ''
        match = first.replace('mcs_type new_mcs', 'const mcs_type& new_mcs')
        out.append(SETTER % dict(name=name, params=params, match=match, mutant=mut))
        for g, ret in getters:
            out.append(GETTER % dict(name=g, ret=ret))
    out.append('void h(void) {\n  RadioTap* r = malloc(sizeof(RadioTap)); __CPROVER_assume(r != NULL);\n  int W_field = nondet_int();\n')
    for i, (name, params, getters, field) in enumerate(FIELDS):
        args = ', '.join('a%d_%d' % (i, k) for k in range(len(params.split(','))))
        decls = ' '.join('%s a%d_%d; memset(&a%d_%d, 0, sizeof(a%d_%d));' % (' '.join(p.strip().split()[:-1]), i, k, i, k, i, k) for k, p in enumerate(params.split(',')))
        out.append('  if (W_field == %d) {   /* %s */\n    %s\n    G_set_flag = 0; G_set_size = 0; RadioTap_%s_set(r, %s);\n' % (i, field, decls, name, args))
        out.append('    __CPROVER_assert(G_set_flag == %s, "%s() writes the %s field");\n' % (field, name, field))
        out.append('    __CPROVER_assert(G_set_size == RADIOTAP_METADATA[bit_of(%s)].size, "%s() hands the writer exactly the octets the %s field occupies (a shorter value shifts every later field)");\n' % (field, name, field))
        out.append('    G_get_size = 0;\n')
        for g, ret in getters:
            out.append('    G_get_flag = 0; (void)RadioTap_%s_get(r);\n' % g)
            out.append('    __CPROVER_assert(G_get_flag == %s, "%s() reads the field %s() writes (%s)");\n' % (field, g, name, field))
        out.append('    __CPROVER_assert(G_get_size <= RADIOTAP_METADATA[bit_of(%s)].size, "the getters of %s read no more octets than the field has");\n' % (field, field))
        out.append('    __CPROVER_assert(G_get_size == RADIOTAP_METADATA[bit_of(%s)].size, "the getters of %s read the whole field");\n  }\n' % (field, field))
    out.append('  TINS_REACH("post");\n}\n')
    p = os.path.join(outdir, 'radiotap_accessors.unit')
    with open(p, 'w') as f:
        f.write(''.join(out))
    return [p]
