"""C11 (parsed start state): a header accepted by RadioTap::RadioTap(buffer) only announces fields that lie completely inside its
options buffer, so the in-place editor (RadioTapWriter::write_option: steps over `current_option_ptr() + size` of every lower
field, overwrites a present field with `size` octets) works inside the buffer.  The REAL constructor, the REAL RadioTapParser
methods (template shared with C01 radiotap.parser_walk) and the cursor methods are composed; one unit per exact options length."""
import os
import re

QUICK = [5, 8]
MORE = [6, 12]

CTOR = r'''
//@ include lib/ims_real.h
//@ struct include/tins/radiotap.h radiotap_header
//@ enum include/tins/radiotap.h PresentFlags
//@ enum include/tins/radiotap.h FrameFlags
typedef struct PDUx_s { int d; } PDUx;
typedef struct { PDUx* inner_; radiotap_header header_; VECB options_payload_; } RadioTap;
static void PDU_set_inner(RadioTap* this, PDUx* p) { this->inner_ = p; }
static PDUx G_dot11;
static PDUx* Dot11_from_bytes(const uint8_t* b, uint32_t n) { __CPROVER_assert(__CPROVER_r_ok(b, n), "the range handed to the 802.11 parser is readable"); if (nondet_bool()) TINS_THROW(malformed_packet); return &G_dot11; }
//@ func src/utils/radiotap_parser.cpp RadioTapParser::current_option_ptr
sig: static const uint8_t* RadioTapParser_current_option_ptr(const RadioTapParser* this)
class: RadioTapParser include/tins/utils/radiotap_parser.h
//@ endfunc
//@ func src/radiotap.cpp RadioTap::length match "length() const"
sig: static uint16_t RadioTap_length(const RadioTap* this)
class: RadioTap include/tins/radiotap.h
//@ endfunc
//@ func src/radiotap.cpp RadioTap::RadioTap match "const uint8_t* buffer, uint32_t total_sz"
sig: static void RadioTap_ctor(RadioTap* this, const uint8_t* buffer, uint32_t total_sz)
class: RadioTap include/tins/radiotap.h
obj: input=IMS
rule: this->options_payload_\.assign\(IMS_pointer\(&input\), IMS_pointer\(&input\) \+ radiotap_size\); ==> { __CPROVER_assume(radiotap_size == NBYTES); uint8_t* copy_ = malloc(NBYTES); __CPROVER_assume(copy_ != NULL); memcpy(copy_, IMS_pointer(&input), NBYTES); this->options_payload_.data = copy_; this->options_payload_.n = NBYTES; } /* vector::assign: an exact-size copy (this unit: NBYTES octets) */
rule: RadioTapParser (\w+)\(this->options_payload_\); ==> RadioTapParser \1; RadioTapParser_ctor(&\1, &this->options_payload_);
rule?: (\w+)\.has_fields\(\) ==> RadioTapParser_has_fields(&\1)
rule?: (\w+)\.current_option\(\); ==> RadioTapParser_current_option(&\1);
rule?: (\w+)\.advance_field\(\); ==> (void)RadioTapParser_advance_field(&\1);
rule: parser\.skip_to_field\(FLAGS\) ==> RadioTapParser_skip_to_field(&parser, FLAGS)
rule: \*parser\.current_option_ptr\(\) ==> *RadioTapParser_current_option_ptr(&parser)
rule: PDU_set_inner\(&this->pdu_base_, ==> PDU_set_inner(this,
rule: Dot11::from_bytes\( ==> Dot11_from_bytes(
mutant: validator\.current_option\(\); ==> 
//@ endfunc
'''

HARNESS = r'''void h(void) {
  /* a captured frame: 4-octet radiotap header with it_len = 4 + NBYTES, NBYTES option octets of any content, then 10 octets */
  uint8_t* pkt = malloc(4 + NBYTES + 10); __CPROVER_assume(pkt != NULL);
  __CPROVER_assume(pkt[2] == ((4 + NBYTES) & 0xff) && pkt[3] == ((4 + NBYTES) >> 8));
  RadioTap* r = malloc(sizeof(RadioTap)); __CPROVER_assume(r != NULL); r->inner_ = NULL;
  RadioTap_ctor(r, pkt, 4 + NBYTES + 10);                 /* accepted frames only: a throw ends the path */
  /* what RadioTapWriter::write_option does with the parser on this header, for any field being set */
  RadioTapParser* p = malloc(sizeof(RadioTapParser)); __CPROVER_assume(p != NULL);
  RadioTapParser_ctor(p, &r->options_payload_);
  const uint8_t* end = r->options_payload_.data + r->options_payload_.n;
  for (int i = 0; i < 23; ++i) {
    if (!RadioTapParser_has_fields(p)) break;
    uint32_t bit = 0; uint32_t f = RadioTapParser_current_field(p); while (bit < 32 && !((f >> bit) & 1)) ++bit;
    __CPROVER_assert(bit < MAX_RADIOTAP_FIELD, "a reported field is one of the table's fields");
    const uint8_t* cur = RadioTapParser_current_option_ptr(p);
    __CPROVER_assert(__CPROVER_same_object(cur, end) && cur + RADIOTAP_METADATA[bit].size <= end, "every field a parsed header announces lies completely inside its options buffer: the setters overwrite it in place and insert behind it");
    RadioTapParser_advance_field(p);
  }
  TINS_REACH("post");
}
'''


def generate(outdir, tier):
    t = open(os.path.join(os.path.dirname(os.path.dirname(os.path.abspath(__file__))), 'C01', 'radiotap_parser.tmpl')).read()
    a = t.index('void h(void) {')
    body = t[:a]
    body = body.replace('#! property: C01', '#! property: C11').replace('#! replay: c01_parse', '#! replay: c11_radiotap')
    body = re.sub(r'#! anchors: ', '#! anchors: RadioTap::RadioTap(const uint8_t*, uint32_t) (src/radiotap.cpp), ', body, 1)
    body = body.replace("mutant: current_ptr_ \\+ size > end_ ==> current_ptr_ + size > end_ + 1\n", '')
    paths = []
    for n in QUICK + (MORE if tier == 'thorough' else []):
        u = body.replace('#! define: NBYTES=12', '#! define: NBYTES=%d' % n).replace('#! unit: radiotap.parser_walk', '#! unit: radiotap.parsed_fields_fit_%d' % n)
        u = re.sub(r'#! bound: [^\n]*', '#! bound: captured frames whose options are exactly %d octets, every content; per-loop unwinding bounds with unwinding assertions' % n, u)
        u = u.replace('--unwindset RadioTapParser_advance_to_next_field.0:24,RadioTapParser_skip_to_field.0:12,h.0:10,h.1:5', '--unwindset RadioTapParser_advance_to_next_field.0:24,RadioTapParser_skip_to_field.0:12,RadioTap_ctor.0:14,RadioTap_ctor.1:14,RadioTap_ctor.2:14,h.0:24,h.1:33')
        if n > 12:
            u = u.replace('--unwind 5 ', '--unwind 7 ')
        if n <= 8:
            u = u.replace('#! objbits: 10', '#! objbits: 10\n#! unreach: RadioTapParser_advance_to_next_namespace.L0')   # one present word only
        u = u + CTOR + HARNESS
        p = os.path.join(outdir, 'parsed_fields_fit_%d.unit' % n)
        with open(p, 'w') as f:
            f.write(u)
        paths.append(p)
    return paths
