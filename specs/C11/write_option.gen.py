"""radiotap.write_option from its template: headers of at most NF-1 existing fields; quick NF=3, thorough NF=4 (about 8 minutes)."""
import os


def generate(outdir, tier):
    t = open(os.path.join(os.path.dirname(os.path.abspath(__file__)), 'write_option.tmpl')).read()
    nf = 4 if tier == 'thorough' else 3
    t = t.replace('#define NF 4', '#define NF %d' % nf).replace('at most 3 fields before the insertion', 'at most %d fields before the insertion' % (nf - 1))
    p = os.path.join(outdir, 'write_option.unit')
    with open(p, 'w') as f:
        f.write(t)
    return [p]
