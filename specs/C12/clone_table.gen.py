"""pdu.clone_table (supporting static fact): every `K* clone() const` declared in include/tins/**/*.h has the body
`return new K(*this);`, K being the class that declares it.  pdu.ownership and packet.ownership model clone() as "allocate + the
extracted PDU copy constructor"; this scan is what ties that model to the 50-odd concrete classes."""
import glob
import os
import re

REPO = os.environ.get('VERIF_REPO', '/repo')


def scan():
    rows = []
    for h in sorted(glob.glob(os.path.join(REPO, 'include', 'tins', '**', '*.h'), recursive=True)):
        txt = open(h, errors='replace').read()
        txt = re.sub(r'/\*.*?\*/', lambda m: re.sub(r'[^\n]', ' ', m.group(0)), txt, flags=re.S)
        txt = re.sub(r'//[^\n]*', '', txt)
        rel = os.path.relpath(h, REPO)
        for m in re.finditer(r'\b(\w+)\s*\*\s*clone\s*\(\s*\)\s*const\s*(\{[^{}]*\}|;|=\s*0\s*;)', txt):
            ret, body = m.group(1), m.group(2)
            line = txt[:m.start()].count('\n') + 1
            # the class that declares it: the last `class X` before the match
            cm = None
            for cm in re.finditer(r'\bclass\s+(?:TINS_API\s+)?(\w+)\b[^;{]*\{', txt[:m.start()]):
                pass
            cls = cm.group(1) if cm else '?'
            if body.startswith('='):
                rows.append((rel, line, cls, True, 'pure virtual (abstract base)'))
                continue
            if body == ';':
                rows.append((rel, line, cls, None, 'declared here, defined elsewhere'))
                continue
            norm = re.sub(r'\s+', ' ', body.strip('{} \n\t')).strip()
            bm = re.match(r'^return new (\w+)(?:<\w+>)?\(\*this\);$', norm)
            # covariant return type: `K* clone() const { return new K(*this); }` names the class twice
            ok = bool(bm) and bm.group(1) == ret
            rows.append((rel, line, ret, ok, 'body `%s` returning %s*' % (norm, ret)))
    return rows


def generate(outdir, tier):
    rows = scan()
    lines = ['#! unit: pdu.clone_table', '#! property: C12', '#! mode: proof', '#! pipeline: plain', '#! entry: h',
             '#! anchors: clone() of: ' + ', '.join(sorted(set(r[2] for r in rows))),
             '#! assumed: a textual scan by specs/C12/clone_table.gen.py over include/tins/**/*.h, not the verifier; what the copy constructor of each class does beyond PDU\'s own (member-wise copies) is not decided here',
             'void h(void) {']
    n = 0
    for rel, line, cls, ok, detail in rows:
        msg = ('%s::clone() (%s:%d): %s' % (cls, rel, line, detail)).replace('"', "'")
        if ok is None:
            lines.append('  /* not analysed: %s */' % msg)
            continue
        n += 1
        lines.append('  __CPROVER_assert(%d, "clone() is a deep copy through the class\'s own copy constructor: %s");' % (1 if ok else 0, msg))
    lines.append('  __CPROVER_assert(%d >= 40, "the scan found the classes (at least 40 clone() definitions)");' % n)
    lines.append('  TINS_REACH("post");\n}')
    p = os.path.join(outdir, 'clone_table.unit')
    with open(p, 'w') as f:
        f.write('\n'.join(lines) + '\n')
    return [p]
