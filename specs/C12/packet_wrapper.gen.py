"""packet.ownership: the Packet wrapper (include/tins/packet.h) over the extracted PDU ownership functions of pdu_links.unit:
copy/move construction and assignment, release_pdu and destruction of wrappers around layer chains of 0..3 layers."""
import os

FUNCS = r'''
typedef struct { PDU* pdu_; int ts_; } Packet;
//@ func include/tins/packet.h Packet::Packet match "const Packet& rhs"
sig: static void Packet_copy_ctor(Packet* this, const Packet* rhs)
class: Packet include/tins/packet.h
inits: lower
rule: rhs\.pdu\(\)->clone\(\) ==> PDU_clone(rhs->pdu_)
rule: rhs\.pdu\(\) ==> rhs->pdu_
rule?: rhs\.timestamp\(\) ==> rhs->ts_
//@ endfunc
//@ func include/tins/packet.h Packet::operator= match "const Packet& rhs"
sig: static void Packet_copy_assign(Packet* this, const Packet* rhs)
class: Packet include/tins/packet.h
rule?: &rhs\b ==> rhs
rule?: TINS_DELETE\(this->pdu_\); ==> PDU_delete(this->pdu_);
rule?: delete this->pdu_; ==> PDU_delete(this->pdu_);
rule?: rhs\.pdu\(\)->clone\(\) ==> PDU_clone(rhs->pdu_)
rule?: rhs\.pdu\(\) ==> rhs->pdu_
rule?: rhs\.timestamp\(\) ==> rhs->ts_
rule: return\s*\*\s*this; ==> return;
mutant: delete pdu_; ==>
//@ endfunc
//@ func include/tins/packet.h Packet::Packet match "Packet &&rhs"
sig: static void Packet_move_ctor(Packet* this, Packet* rhs)
class: Packet include/tins/packet.h
inits: lower
rule?: rhs\.pdu\(\) ==> rhs->pdu_
rule?: rhs\.timestamp\(\) ==> rhs->ts_
rule?: nullptr ==> NULL
mutant: rhs.pdu_ = nullptr; ==>
//@ endfunc
//@ func include/tins/packet.h Packet::operator= match "Packet &&rhs"
sig: static void Packet_move_assign(Packet* this, Packet* rhs)
class: Packet include/tins/packet.h
rule?: &rhs\b ==> rhs
rule?: std::move\(([^()]*)\) ==> (\1)
rule?: std::swap\(this->pdu_, rhs->pdu_\) ==> TINS_SWAP_PTR(this->pdu_, rhs->pdu_)
rule?: TINS_DELETE\(this->pdu_\); ==> PDU_delete(this->pdu_);
rule?: delete this->pdu_; ==> PDU_delete(this->pdu_);
rule?: rhs\.timestamp\(\) ==> rhs->ts_
rule?: nullptr ==> NULL
rule: return\s*\*\s*this; ==> return;
//@ endfunc
//@ func include/tins/packet.h Packet::~Packet
sig: static void Packet_dtor(Packet* this)
class: Packet include/tins/packet.h
rule?: TINS_DELETE\(this->pdu_\); ==> PDU_delete(this->pdu_);
rule?: delete this->pdu_; ==> PDU_delete(this->pdu_);
//@ endfunc
//@ func include/tins/packet.h Packet::release_pdu
sig: static PDU* Packet_release_pdu(Packet* this)
class: Packet include/tins/packet.h
//@ endfunc
'''

HARNESS = r'''
void h(void) {
  int W_ka = nondet_int(), W_kb = nondet_int(), W_op = nondet_int();
  __CPROVER_assume(W_ka >= 0 && W_ka <= 3 && W_kb >= 0 && W_kb <= 3 && W_op >= 0 && W_op <= 6);
  Packet a = { build(W_ka, 100), 1 }, b = { build(W_kb, 200), 2 }, c = { NULL, 0 };
  PDU* extra = NULL;
  if (W_op == 0) {            /* copy assignment a = b */
    Packet_copy_assign(&a, &b);
    __CPROVER_assert(chain_len(b.pdu_) == W_kb && forest_ok(b.pdu_), "Packet copy assignment leaves the source unchanged");
    __CPROVER_assert(chain_len(a.pdu_) == W_kb, "a copy of a Packet is equal to its source: same number of layers, also when the source is empty or has fewer layers than the target had");
    __CPROVER_assert(same_payloads(a.pdu_, b.pdu_) && forest_ok(a.pdu_) && (a.pdu_ == NULL || a.pdu_->parent_pdu_ == NULL), "a copy of a Packet is deep: same field values in distinct layers, rooted at the wrapper");
    __CPROVER_assert(a.ts_ == b.ts_, "a copy of a Packet has its source's timestamp");
    TINS_REACH("op0");
  } else if (W_op == 1) {     /* copy construction */
    Packet_copy_ctor(&c, &b);
    __CPROVER_assert(chain_len(c.pdu_) == W_kb && same_payloads(c.pdu_, b.pdu_) && forest_ok(c.pdu_) && chain_len(b.pdu_) == W_kb && c.ts_ == b.ts_, "Packet copy construction is deep and equal to its source");
    TINS_REACH("op1");
  } else if (W_op == 2) {     /* move construction */
    PDU* was = b.pdu_;
    Packet_move_ctor(&c, &b);
    __CPROVER_assert(c.pdu_ == was && b.pdu_ == NULL && c.ts_ == 2, "Packet move construction transfers the layers: exactly one owner afterwards");
    TINS_REACH("op2");
  } else if (W_op == 3) {     /* move assignment */
    PDU* was = b.pdu_;
    Packet_move_assign(&a, &b);
    __CPROVER_assert(a.pdu_ == was && a.ts_ == 2, "Packet move assignment gives the target the source's layers and timestamp");
    __CPROVER_assert(b.pdu_ == NULL || (b.pdu_ != a.pdu_ && chain_len(b.pdu_) == W_ka), "Packet move assignment: the source owns nothing of the target's afterwards (it may hold the target's old layers)");
    TINS_REACH("op3");
  } else if (W_op == 4) {     /* release_pdu: the layers go back to the user */
    PDU* was = a.pdu_;
    extra = Packet_release_pdu(&a);
    __CPROVER_assert(extra == was && a.pdu_ == NULL, "release_pdu hands the layers to the user and the wrapper owns nothing");
    TINS_REACH("op4");
  } else if (W_op == 5) {     /* self copy assignment */
    PDU* was = a.pdu_;
    Packet_copy_assign(&a, &a);
    __CPROVER_assert(a.pdu_ == was && chain_len(a.pdu_) == W_ka && forest_ok(a.pdu_), "self assignment of a Packet keeps its layers");
    TINS_REACH("op5");
  } else if (W_op == 6) {     /* self move assignment */
    PDU* was = a.pdu_;
    Packet_move_assign(&a, &a);
    __CPROVER_assert(a.pdu_ == was && chain_len(a.pdu_) == W_ka && forest_ok(a.pdu_), "self move assignment of a Packet keeps its layers");
    TINS_REACH("op6");
  }
  /* destroying all live objects frees every layer exactly once: double frees are CBMC failures, leaks fail the leak check */
  Packet_dtor(&a); Packet_dtor(&b); Packet_dtor(&c); PDU_delete(extra);
  TINS_REACH("post");
}
'''


def generate(outdir, tier):
    here = os.path.dirname(os.path.abspath(__file__))
    t = open(os.path.join(here, 'pdu_links.unit')).read()
    i = t.index('static PDU* build(int k, int tag)')
    j = t.index('void h(void) {')
    head = '\n'.join(ln for ln in t[:i].split('\n') if not ln.startswith('mutant:'))     # the PDU functions' seeded mutants belong to pdu.ownership
    t = head + FUNCS + t[i:j] + HARNESS
    t = t.replace('#! unit: pdu.ownership', '#! unit: packet.ownership')
    t = t.replace('#! anchors: ', '#! anchors: Packet(const Packet&), Packet::operator=(const Packet&), Packet(Packet&&), Packet::operator=(Packet&&), ~Packet, Packet::release_pdu (include/tins/packet.h), ')
    t = t.replace('#! replay: c12_pdu', '#! replay: c12_packet')
    assert 'packet.ownership' in t
    p = os.path.join(outdir, 'packet_wrapper.unit')
    with open(p, 'w') as f:
        f.write(t)
    return [p]
