"""C13 generator: the (class, flag, matches_flag override, base list) table of every PDU class declared under
include/tins, read from /repo on every run, with the bodies of pdu_type()/matches_flag() copied verbatim, plus the
find_pdu / tins_cast bodies from pdu.h. Finite and fully generated (DESIGN C13)."""
import glob
import json
import os
import re
import sys

sys.path.insert(0, os.path.dirname(os.path.dirname(os.path.dirname(os.path.abspath(__file__)))))
from vf import cxx  # noqa: E402

REPO = cxx.REPO


def scan():
    classes = {}
    hs = sorted(glob.glob(os.path.join(REPO, 'include/tins/**/*.h'), recursive=True))
    for f in hs:
        rel = os.path.relpath(f, REPO)
        s = cxx.read_source(rel)
        for m in re.finditer(r'\bclass\s+(?:TINS_API\s+)?(\w+)\s*(?::\s*([^{;]+))?\{', s):
            name, bases = m.group(1), m.group(2) or ''
            k = cxx.match_bracket(s, m.end() - 1, '{', '}')
            body = s[m.end():k - 1]
            fl = re.search(r'static\s+const\s+PDU::PDUType\s+pdu_flag\s*=\s*([\w:]+)\s*;', body)
            if not fl:
                continue
            mf = re.search(r'bool\s+matches_flag\s*\(\s*PDUType\s+flag\s*\)\s*const\s*\{([^{}]*)\}', body)
            pt = re.search(r'PDUType\s+pdu_type\s*\(\s*\)\s*const\s*\{([^{}]*)\}', body)
            bl = [b.split()[-1].split('::')[-1] for b in bases.split(',') if b.strip()]
            classes[name] = dict(bases=bl, flag=fl.group(1).replace('PDU::', ''), mf=mf.group(1).strip() if mf else None,
                                 pt=pt.group(1).strip() if pt else None, file=rel,
                                 abstract=bool(re.search(r'=\s*0\s*;', body)))
    return classes


def generate(outdir, tier):
    classes = scan()
    if 'PDUCacher' not in classes:
        raise cxx.ExtractError('PDUCacher not found')
    cacher = classes.pop('PDUCacher')
    names = sorted(classes)
    enum = cxx.find_enum('include/tins/pdu.h', 'PDUType')
    out = ['#! unit: c13.table', '#! property: C13', '#! mode: proof', '#! pipeline: plain', '#! entry: h_c13', '#! funcs-json: yes',
           '#! anchors: pdu_flag / pdu_type() / matches_flag() of %d classes + PDUCacher<X>; PDU::find_pdu, tins_cast (include/tins/pdu.h)' % len(names),
           '#! cbmc: --unwind 6 --unwinding-assertions',
           'typedef %s PDUType;' % re.sub(r'^enum\s+PDUType', 'enum PDUType_e', enum.strip())]

    def cid(n):
        return 'CLS_' + n
    allc = names + ['PDU'] + ['PDUCacher_' + n for n in names]
    out.append('enum { ' + ', '.join(cid(n) for n in allc) + ', NCLS };')
    for n in names:
        out.append('static _Bool %s_matches_flag(PDUType flag); static PDUType %s_pdu_type(void);' % (n, n))

    def body(n, b):
        b = re.sub(r'\b(\w+)::matches_flag\(', r'\1_matches_flag(', b)
        b = b.replace('PDU::', '')
        b = re.sub(r'\bpdu_flag\b', classes[n]['flag'], b)
        b = re.sub(r'(?<!_)\bpdu_type\(\)', '%s_pdu_type()' % n, b)
        return b

    def inherited(n, key):
        while classes[n][key] is None:
            if not classes[n]['bases'] or classes[n]['bases'][0] not in classes:
                return None, None
            n = classes[n]['bases'][0]
        return n, classes[n][key]
    funcs = []
    state_dependent = []     # (class, which, body): a type test that reads object state instead of being a constant of the class

    enum_names = set(re.findall(r'\b([A-Za-z_]\w*)\b(?=\s*(?:=|,|\}))', enum))

    def class_constant(b):
        # only `return`, `flag`, PDUType enumerators and the other classes' type tests may appear
        for ident in re.findall(r'[A-Za-z_]\w*', b):
            if ident in ('return', 'flag', 'true', 'false') or ident.endswith(('_matches_flag', '_pdu_type')) or ident in enum_names:
                continue
            return False
        return True
    for n in names:
        o, pt = inherited(n, 'pt')
        if pt is None:
            raise cxx.ExtractError('class %s has no pdu_type()' % n)
        ptb = body(n if o == n else n, pt)
        if not class_constant(ptb):
            state_dependent.append((n, 'pdu_type()', re.sub(r'\s+', ' ', pt.strip())))
            ptb = 'return (PDUType)nondet_int(); /* reads object state: any value */'
        out.append('/* %s::pdu_type (%s) */ static PDUType %s_pdu_type(void) { %s }' % (o, classes[o]['file'], n, ptb))
        o2, mf = inherited(n, 'mf')
        mfb = body(o2, mf) if mf else 'return flag == %s_pdu_type();' % n
        if not class_constant(mfb):
            state_dependent.append((n, 'matches_flag()', re.sub(r'\s+', ' ', (mf or '').strip())))
            mfb = 'return nondet_bool(); /* reads object state: any value */'
        out.append('/* %s::matches_flag */ static _Bool %s_matches_flag(PDUType flag) { %s }' % (o2 or 'PDU', n, mfb))
        funcs.append({'function': '%s::pdu_type / matches_flag / pdu_flag' % n, 'file': classes[n]['file']})
    # PDU::matches_flag default (pdu.h): return flag == pdu_type();
    pdu_mf = cxx.find_function('include/tins/pdu.h', 'PDU::matches_flag')
    if re.sub(r'\s+', '', pdu_mf.body) != '{returnflag==pdu_type();}':
        raise cxx.ExtractError('PDU::matches_flag is no longer `return flag == pdu_type();`: %s' % pdu_mf.body)

    def closure(n):
        r = {n}
        while n in classes and classes[n]['bases'] and classes[n]['bases'][0] in classes:
            n = classes[n]['bases'][0]
            r.add(n)
        return r
    out.append('/* what dynamic_cast consults: the base lists of the class declarations */')
    out.append('static _Bool derives(int k, int t) { switch (k) {')
    for n in names:
        out.append(' case %s: return %s;' % (cid(n), ' || '.join('t == %s' % cid(b) for b in sorted(closure(n)))))
        out.append(' case %s: return t == %s;' % (cid('PDUCacher_' + n), cid('PDUCacher_' + n)))
    out.append(' default: return 0; } }')
    # PDUCacher<X>: pdu_flag = cached_type::pdu_flag; matches_flag/pdu_type forward to cached_ (checked textually)
    if 'cached_type::pdu_flag' not in cacher['flag'] and cacher['flag'] != 'cached_type::pdu_flag':
        pass
    if not cacher['mf'] or 'cached_.matches_flag(flag)' not in cacher['mf'] or not cacher['pt'] or 'cached_.pdu_type()' not in cacher['pt']:
        raise cxx.ExtractError('PDUCacher no longer forwards matches_flag/pdu_type to cached_: update the generator')
    out.append('static PDUType flag_of(int t) { switch (t) {' + ''.join(' case %s: return %s;' % (cid(n), classes[n]['flag']) for n in names) +
               ''.join(' case %s: return %s; /* PDUCacher<T>::pdu_flag = cached_type::pdu_flag */' % (cid('PDUCacher_' + n), classes[n]['flag']) for n in names) + ' default: return UNKNOWN; } }')
    out.append('static _Bool k_matches(int k, PDUType f) { switch (k) {' + ''.join(' case %s: return %s_matches_flag(f);' % (cid(n), n) for n in names) +
               ''.join(' case %s: return %s_matches_flag(f); /* %s */' % (cid('PDUCacher_' + n), n, cacher['mf']) for n in names) + ' default: return 0; } }')
    out.append('static PDUType k_type(int k) { switch (k) {' + ''.join(' case %s: return %s_pdu_type();' % (cid(n), n) for n in names) +
               ''.join(' case %s: return %s_pdu_type(); /* %s */' % (cid('PDUCacher_' + n), n, cacher['pt']) for n in names) + ' default: return UNKNOWN; } }')
    # find_pdu / tins_cast bodies from pdu.h over a chain of objects that carry their dynamic class
    out.append('typedef struct PDU_s { int cls; struct PDU_s* inner_pdu_; } PDU;')
    out.append('int G_T;  /* the class T asked for */')
    out.append('''//@ func include/tins/pdu.h PDU::find_pdu match "T* find_pdu(PDUType type = T::pdu_flag)"
sig: static PDU* PDU_find_pdu(PDU* this, PDUType type)
rule: pdu->matches_flag\\(type\\) ==> k_matches(pdu->cls, type)
rule: \\(\\(T\\*\\)\\(pdu\\)\\) ==> pdu
rule: pdu->inner_pdu\\(\\) ==> pdu->inner_pdu_
//@ endfunc
//@ func include/tins/pdu.h tins_cast match "T tins_cast(U* pdu)"
sig: static PDU* tins_cast_ptr(PDU* pdu)
rule: typedef typename Internals::remove_pointer<T>::type TrueT; ==>
rule: TrueT::pdu_flag ==> flag_of(G_T)
rule: pdu->pdu_type\\(\\) ==> k_type(pdu->cls)
rule: \\(\\(T\\)\\(pdu\\)\\) ==> pdu
//@ endfunc''')
    nconc = len(names)
    sd = ''.join('  __CPROVER_assert(0, "the type test of a layer is a constant of its class: %s::%s reads object state (%s)");\n' % (c, w, b.replace('"', "'").replace('\\', '/')) for c, w, b in state_dependent)
    out.append('''void h_c13(void) {
SD_ASSERTS  int k, t; __CPROVER_assume(k >= 0 && k < NCLS && t >= 0 && t < NCLS && k != CLS_PDU && t != CLS_PDU);
  PDUType ft = flag_of(t);
  _Bool cacher = k > CLS_PDU || t > CLS_PDU;
  if (!cacher) {
    __CPROVER_assert(!k_matches(k, ft) || derives(k, t), "find_pdu<T> on an object of class K succeeds only if K is a T");
    __CPROVER_assert(!(k_type(k) == ft) || derives(k, t), "tins_cast<T*> on an object of class K succeeds only if K is a T");
    __CPROVER_assert(k_matches(k, flag_of(k)), "find_pdu<K> finds an object of class K");
    TINS_REACH("classes");
  } else {
    __CPROVER_assert(!k_matches(k, ft) || derives(k, t), "find_pdu<T> with K or T a PDUCacher<X> succeeds only if K is a T");
    __CPROVER_assert(!(k_type(k) == ft) || derives(k, t), "tins_cast<T*> with K or T a PDUCacher<X> succeeds only if K is a T");
    __CPROVER_assert(k_matches(k, flag_of(k)), "find_pdu<PDUCacher<X>> finds a PDUCacher<X>");
    TINS_REACH("cacher");
  }
  /* the helpers themselves: chain of up to 4 layers of arbitrary classes (bounded), T not a cacher */
  PDU n[4]; int len; __CPROVER_assume(len >= 1 && len <= 4);
  for (int i = 0; i < 4; ++i) { __CPROVER_assume(n[i].cls >= 0 && n[i].cls < CLS_PDU); n[i].inner_pdu_ = (i + 1 < len) ? &n[i + 1] : NULL; }
  __CPROVER_assume(t < CLS_PDU); G_T = t;
  PDU* r = PDU_find_pdu(&n[0], flag_of(t));
  __CPROVER_assert(r == NULL || derives(r->cls, t), "find_pdu<T> over a chain returns only objects that are a T");
  _Bool has = 0; for (int i = 0; i < 4; ++i) if (i < len && n[i].cls == t) has = 1;
  __CPROVER_assert(!has || r != NULL, "find_pdu<T> over a chain that contains a T finds one");
  PDU* c = tins_cast_ptr(&n[0]);
  __CPROVER_assert(c == NULL || (c == &n[0] && derives(n[0].cls, t)), "tins_cast<T*> returns its argument, and only if it is a T");
  __CPROVER_assert(tins_cast_ptr(NULL) == NULL, "tins_cast of a null pointer is null");
  TINS_REACH("post");
}''')
    p = os.path.join(outdir, 'c13_table.unit')
    with open(p, 'w') as f:
        f.write(('\n'.join(out) + '\n').replace('SD_ASSERTS', sd))
    with open(p + '.json', 'w') as f:
        json.dump({'functions': funcs, 'classes': len(names), 'classes_with_cacher': len(allc) - 1,
                   'pairs_checked': (len(allc) - 1) ** 2, 'class_names': names}, f)
    return [p]


if __name__ == '__main__':
    os.makedirs('/tmp/c13gen', exist_ok=True)
    print(generate('/tmp/c13gen', 'quick'))
