"""C15 generator: pairs every one-parameter setter `void K::f(T)` with the getter `f() const`, copies the class's
packed header structs and emits one loop-free unit per class (DESIGN section C15).

Nothing here is a model of the accessors: the bodies are the text found in /repo at run time, lowered by the
generic cxx2c rules. The generator only decides *which* bodies can be expressed (POD header members, scalar /
small_uint / enum / bool / IPv4Address parameters) and accounts for every accessor it had to leave out.
"""
import glob
import json
import os
import re
import sys

sys.path.insert(0, os.path.dirname(os.path.dirname(os.path.dirname(os.path.abspath(__file__)))))
from vf import cxx, lower  # noqa: E402

REPO = cxx.REPO
HERE = os.path.dirname(os.path.abspath(__file__))

INT_TYPES = {'uint8_t': 8, 'uint16_t': 16, 'uint32_t': 32, 'uint64_t': 64, 'int8_t': 8, 'int16_t': 16, 'int32_t': 32,
             'int64_t': 64, 'int': 32, 'unsigned': 32, 'char': 8, 'size_t': 64}
C_WORDS = set('''return if else while for sizeof const static unsigned signed int char void this struct union enum do
 break continue switch case default NULL true false typedef uint8_t uint16_t uint32_t uint64_t int8_t int16_t int32_t
 int64_t size_t _Bool bool TINS_host_to_be TINS_be_to_host TINS_host_to_le TINS_le_to_host TINS_THROW value_too_large
 __builtin_expect'''.split())


def headers():
    hs = sorted(glob.glob(os.path.join(REPO, 'include/tins/*.h')) + glob.glob(os.path.join(REPO, 'include/tins/dot11/*.h')))
    return [os.path.relpath(h, REPO) for h in hs]


def sources():
    ss = sorted(glob.glob(os.path.join(REPO, 'src/*.cpp')) + glob.glob(os.path.join(REPO, 'src/dot11/*.cpp')))
    return [os.path.relpath(s, REPO) for s in ss]


class ClassInfo:
    def __init__(self, name, header, lo, hi, bases):
        self.name, self.header, self.lo, self.hi, self.bases = name, header, lo, hi, bases
        self.structs = {}     # name -> text
        self.enums = {}       # name -> text
        self.typedefs = {}    # name -> target
        self.members = {}     # name_ -> (type, array suffix)
        self.getters = {}     # name -> (rettype, body, where)
        self.flat = ''


def flatten(body):
    """blank out nested brace blocks (keeps depth-0 text)"""
    out, d = [], 0
    for c in body:
        if c == '{':
            d += 1
            out.append('{' if d == 1 else ' ')
        elif c == '}':
            out.append('}' if d == 1 else ' ')
            d -= 1
        else:
            out.append(c if d == 0 else ('\n' if c == '\n' else ' '))
    return ''.join(out)


def scan_classes():
    classes = {}
    for h in headers():
        try:
            src = cxx.read_source(h)
        except cxx.ExtractError:
            continue
        for m in re.finditer(r'\bclass\s+(?:TINS_API\s+)?(\w+)\s*(?::\s*([^{;]+))?\{', src):
            name = m.group(1)
            j = m.end() - 1
            try:
                k = cxx.match_bracket(src, j, '{', '}')
            except cxx.ExtractError:
                continue
            bases = re.findall(r'public\s+([\w:]+)', m.group(2) or '')
            ci = ClassInfo(name, h, j + 1, k - 1, [b.split('::')[-1] for b in bases])
            body = src[j + 1:k - 1]
            ci.body = body
            for sm in re.finditer(r'\b(struct|union)\s+(\w+)\s*\{', body):
                e = cxx.match_bracket(body, sm.end() - 1, '{', '}')
                ci.structs[sm.group(2)] = body[sm.start():e] + cxx.packed_marker(body, e)
            for sm in re.finditer(r'\bclass\s+(\w+)\s*\{', body):
                e = cxx.match_bracket(body, sm.end() - 1, '{', '}')
                inner = flatten(body[sm.end():e - 1])
                decls = re.findall(r'\b(?:uint8_t|uint16_t|uint32_t|uint64_t)\s+\w+\s*:\s*\d+(?:\s*,\s*\w+\s*:\s*\d+)*\s*;', inner)
                if decls:
                    ci.structs[sm.group(1)] = 'struct %s { %s }' % (sm.group(1), ' '.join(decls)) + cxx.packed_marker(body, e)
            ci.consts = dict(re.findall(r'\bstatic\s+const\s+\w+\s+(\w+)\s*=\s*(\d+)\s*;', flatten(body)))
            for em in re.finditer(r'\benum\s+(\w+)\s*\{', body):
                e = cxx.match_bracket(body, em.end() - 1, '{', '}')
                ci.enums[em.group(1)] = body[em.start():e]
            flat = flatten(body)
            ci.flat = flat
            for tm in re.finditer(r'\btypedef\s+([\w:<>\s,]+?)\s+(\w+)\s*;', flat):
                ci.typedefs[tm.group(2)] = tm.group(1).strip()
            for mm in re.finditer(r'(?:^|(?<=[;}{:]))\s*((?:const\s+)?[\w:<>]+)\s+(\w+_)\s*((?:\[[^\]]*\])*)\s*;', flat):
                ci.members[mm.group(2)] = (mm.group(1).strip(), mm.group(3))
            # inline getters
            for f in cxx._scan_defs(src, r'(?<![\w:~])[a-z_]\w*', j + 1, k - 1):
                if f.params.strip() == '' and 'const' in f.trailer:
                    nm = re.findall(r'(\w+)$', f.sig)[0]
                    ret = f.sig[:-len(nm)].strip()
                    ret = re.sub(r'\b(inline|virtual|static|TINS_API)\b', '', ret).strip()
                    if ret:
                        ci.getters[nm] = (ret, f.body, h)
            classes[name] = ci
    return classes


def scan_cpp(classes):
    setters = {}   # class -> {name: (ptype, pname, body, file)}
    for s in sources():
        src = cxx.read_source(s)
        for f in cxx._scan_defs(src, r'\b\w+\s*::\s*[a-z_]\w*', 0, len(src)):
            m = re.match(r'(.*?)(\w+)\s*::\s*(\w+)$', f.sig, re.S)
            if not m:
                continue
            ret, cls, name = m.group(1).strip(), m.group(2), m.group(3)
            if cls not in classes:
                continue
            if ret == 'void' and f.params and ',' not in f.params:
                pm = re.match(r'(?:const\s+)?([\w:<>]+)\s*&?\s*(\w+)$', f.params.strip())
                if pm:
                    setters.setdefault(cls, {})[name] = (pm.group(1), pm.group(2), f.body, s)
            elif f.params.strip() == '' and 'const' in f.trailer and ret and ret != 'void':
                classes[cls].getters[name] = (re.sub(r'\b(inline|virtual|static)\b', '', ret).strip(), f.body, s)
    return setters


def lineage(classes, k):
    out = [k]
    for b in classes[k].bases:
        if b in classes:
            out += lineage(classes, b)
    return out


def resolve_type(classes, k, t):
    """-> (ctype, kind, bits) or None. kind: int | bool | small | enum | ipv4"""
    t = t.strip()
    t = re.sub(r'^(?:Tins::)?', '', t)
    seen = 0
    while seen < 5:
        seen += 1
        if t in INT_TYPES:
            return (t, 'int', INT_TYPES[t])
        if t == 'bool':
            return ('_Bool', 'bool', 1)
        m = re.match(r'small_uint<\s*(\d+)\s*>$', t)
        if m:
            n = int(m.group(1))
            return ('uint8_t' if n <= 8 else 'uint16_t' if n <= 16 else 'uint32_t' if n <= 32 else 'uint64_t', 'small', n)
        if t == 'IPv4Address':
            return ('IPv4Address', 'ipv4', 32)
        found = False
        for c in lineage(classes, k):
            ci = classes[c]
            base = t.split('::')[-1]
            if base in ci.enums:
                return (c + '_' + base, 'enum', 0, c, base)
            if base in ci.typedefs:
                t = ci.typedefs[base]
                found = True
                break
        if not found:
            return None
    return None


def used_idents(s):
    s = re.sub(r'"[^"]*"', '', s)
    s = re.sub(r'\b0[xX][0-9a-fA-F]+[uUlL]*|\b\d+[uUlL]*', ' ', s)
    return set(re.findall(r'[A-Za-z_]\w*', s))


def declared_locals(s):
    return set(re.findall(r'\b(?:const\s+)?(?:uint8_t|uint16_t|uint32_t|uint64_t|int|unsigned|size_t|char|bool)\s+(\w+)\s*[=;(\[]', s))


def generate(outdir, tier):
    classes = scan_classes()
    setters = scan_cpp(classes)
    waivers = {}
    wpath = os.path.join(HERE, 'waivers.tsv')
    if os.path.exists(wpath):
        for ln in open(wpath):
            ln = ln.split('#')[0].rstrip('\n')
            if not ln.strip():
                continue
            p = ln.split('\t')
            waivers.setdefault(p[0], []).append((p[1], p[2], p[3] if len(p) > 3 else ''))
    paths = []
    for k in sorted(setters):
        if 'PDU' not in lineage(classes, k) and k not in ('ICMPExtensionsStructure', 'ICMPExtension'):
            continue
        try:
            u = gen_class(classes, setters, k, waivers.get(k, []))
        except cxx.ExtractError as e:
            u = None
            sys.stderr.write('C15 generator: class %s skipped: %s\n' % (k, e))
        if not u:
            continue
        text, meta = u
        p = os.path.join(outdir, 'c15_%s.unit' % k)
        with open(p, 'w') as f:
            f.write(text)
        with open(p + '.json', 'w') as f:
            json.dump(meta, f)
        paths.append(p)
    return paths


def gen_class(classes, setters, k, waivers):
    ci = classes[k]
    lin = lineage(classes, k)
    members = {}
    structs = {}
    for c in reversed(lin):
        members.update(classes[c].members)
        for sname, stext in classes[c].structs.items():
            structs[sname] = (c, stext)
    getters = {}
    for c in reversed(lin):
        getters.update(classes[c].getters)
    log = lower.RuleLog()
    skipped = []
    used_enums = {}
    need_ipv4 = False

    def lower_acc(body, params):
        b, _ = lower.lower_body(cxx.preprocess(body), cls=k, methods=set(getters) | set(setters.get(k, {})),
                                members=set(members), log=log,
                                overloads=dict([((g, 0), '%s_get_%s' % (k, g)) for g in getters] +
                                               [((s, 1), '%s_set_%s' % (k, s)) for s in setters.get(k, {})]))
        return b

    # which members are POD
    pod = {}
    struct_needed = []

    def need_struct(sname):
        if sname in [s for s, _ in struct_needed]:
            return
        c, text = structs[sname]
        # nested struct types used inside
        for inner in re.findall(r'\b(\w+)\s+\w+\s*;', text):
            if inner in structs and inner != sname:
                need_struct(inner)
        struct_needed.append((sname, text))
    for mname, (mtype, arr) in members.items():
        base = mtype.replace('const ', '').split('::')[-1]
        if base in structs:
            pod[mname] = (base, arr)
        elif base in INT_TYPES or base == 'bool':
            pod[mname] = (base if base != 'bool' else '_Bool', arr)
    gens = {}
    for g, (ret, body, where) in sorted(getters.items()):
        rt = resolve_type(classes, k, ret)
        if rt is None:
            continue
        mem = [m for m in re.findall(r'(?<![\w>.])([a-z]\w*_)\b(?!\s*\()', body)]
        if not mem or any(m not in pod for m in mem):
            continue
        gens[g] = (rt, body, where)
    sets = {}
    for s, (ptype, pname, body, where) in sorted(setters.get(k, {}).items()):
        mem = [m for m in re.findall(r'(?<![\w>.])([a-z]\w*_)\b(?!\s*\()', body)]
        if not mem:
            continue          # not a header-field accessor (e.g. add_option forwards)
        rt = resolve_type(classes, k, ptype)
        if rt is None:
            skipped.append((s, 'parameter type %s not scalar' % ptype))
            continue
        if any(m not in pod for m in mem):
            skipped.append((s, 'touches non-POD member %s' % [m for m in mem if m not in pod][0]))
            continue
        sets[s] = (rt, pname, body, where)
    if not sets:
        return None
    # emit
    out = []
    out.append('#! unit: c15.%s' % k)
    out.append('#! property: C15')
    out.append('#! mode: proof')
    out.append('#! pipeline: plain')
    out.append('#! entry: h_c15')
    out.append('#! allow-exc: value_too_large')
    out.append('#! timeout: 900')
    out.append('//@ include lib/endian.h')
    for c in reversed(lin):
        pass
    funcs = []
    # decide the struct set from pod members actually used
    used_members = set()
    for _, (rt, body, where) in gens.items():
        used_members |= set(re.findall(r'(?<![\w>.])([a-z]\w*_)\b(?!\s*\()', body))
    for _, (rt, pname, body, where) in sets.items():
        used_members |= set(re.findall(r'(?<![\w>.])([a-z]\w*_)\b(?!\s*\()', body))
    for mname in sorted(used_members):
        if pod[mname][0] in structs:
            need_struct(pod[mname][0])
    from vf.unit import _lower_struct
    consts = {}
    for c in reversed(lin):
        consts.update(getattr(classes[c], 'consts', {}))
    used_consts = sorted(n for n in consts if any(re.search(r'\b%s\b' % n, t) for _, t in struct_needed))
    if used_consts:
        out.append('enum { %s };' % ', '.join('%s = %s' % (n, consts[n]) for n in used_consts))
    for sname, text in struct_needed:
        out.append(_lower_struct(text, sname, None))
    body_texts = {}
    for g, (rt, body, where) in gens.items():
        body_texts[('get', g)] = lower_acc(body, [])
    for s, (rt, pname, body, where) in sets.items():
        body_texts[('set', s)] = lower_acc(body, [pname])
    # enums / ipv4 needed
    all_types = [rt for rt, _, _ in gens.values()] + [rt for rt, _, _, _ in sets.values()]
    for rt in all_types:
        if rt[1] == 'enum':
            used_enums[rt[0]] = (rt[3], rt[4])
        if rt[1] == 'ipv4':
            need_ipv4 = True
    enum_values = {}
    for cname, (c, e) in sorted(used_enums.items()):
        etext = cxx.preprocess(classes[c].enums[e])
        etext = re.sub(r'^enum\s+\w+', 'enum %s_e' % cname, etext.strip())
        out.append('typedef %s %s;' % (etext, cname))
        inner = etext[etext.index('{') + 1:etext.rindex('}')]
        enum_values[cname] = [x.split('=')[0].strip() for x in lower._split_args(inner) if x.strip()]
    if need_ipv4:
        out.append('//@ include lib/ipv4.h')
        out.append('//@ func src/ip_address.cpp IPv4Address::operator\\ uint32_t\nsig: static uint32_t IPv4Address_to_u32(const IPv4Address* this)\nclass: IPv4Address include/tins/ip_address.h\n//@ endfunc')
    out.append('typedef struct {')
    for mname in sorted(used_members):
        out.append('  %s %s%s;' % (pod[mname][0], mname, pod[mname][1]))
    out.append('} %s;' % k)
    # all enumerators of the class lineage that bodies mention (e.g. comparisons) are provided as macros if not typed
    known = set(C_WORDS) | set(used_members)
    for cname, vals in enum_values.items():
        known |= set(vals) | {cname}
    known |= {'%s_get_%s' % (k, g) for g in gens} | {'%s_set_%s' % (k, s) for s in sets}
    known |= {k, 'IPv4Address', 'IPv4Address_from_u32', 'IPv4Address_to_u32', 'ip_addr_'}
    for sname, text in struct_needed:
        known |= used_idents(text)

    def ctype_of(rt):
        return rt[0]

    def fix_enum_types(b):
        # C++ enum type names used unqualified in bodies
        for cname, (c, e) in used_enums.items():
            b = re.sub(r'(?<![\w_])' + re.escape(e) + r'(?![\w_])', cname, b)
        return b

    ok_get, ok_set = {}, {}
    for g, (rt, body, where) in gens.items():
        b = fix_enum_types(body_texts[('get', g)])
        if rt[1] == 'ipv4':
            b = re.sub(r'\b(?:address_type|IPv4Address)\s*\(', 'IPv4Address_from_u32(', b)
        bad = used_idents(b) - known - declared_locals(b)
        if bad:
            continue
        ok_get[g] = (rt, b, where)
    for s, (rt, pname, body, where) in sets.items():
        b = fix_enum_types(body_texts[('set', s)])
        if rt[1] == 'ipv4':
            b = re.sub(r'(?<![\w.>])' + re.escape(pname) + r'\b(?!\s*\.)', 'IPv4Address_to_u32(&%s)' % pname, b)
        bad = used_idents(b) - known - {pname} - declared_locals(b)
        if bad:
            skipped.append((s, 'unsupported construct: %s' % sorted(bad)[0]))
            continue
        ok_set[s] = (rt, pname, b, where)
    if not ok_set:
        return None
    for g, (rt, b, where) in ok_get.items():
        out.append('static %s %s_get_%s(const %s* this);' % (ctype_of(rt), k, g, k))
    for s, (rt, pname, b, where) in ok_set.items():
        out.append('static void %s_set_%s(%s* this, %s %s);' % (k, s, k, ctype_of(rt), pname))
    for g, (rt, b, where) in ok_get.items():
        out.append('/* extracted: %s :: %s::%s() const */' % (where, k, g))
        out.append('static %s %s_get_%s(const %s* this) %s' % (ctype_of(rt), k, g, k, b))
        funcs.append({'function': '%s::%s() const' % (k, g), 'file': where})
    for s, (rt, pname, b, where) in ok_set.items():
        out.append('/* extracted: %s :: %s::%s(%s) */' % (where, k, s, rt[0]))
        out.append('static void %s_set_%s(%s* this, %s %s) %s' % (k, s, k, ctype_of(rt), pname, b))
        funcs.append({'function': '%s::%s(%s)' % (k, s, rt[0]), 'file': where})

    union_groups = []   # list of sets of sibling member names that overlay each other
    for sname, text in struct_needed:
        t = cxx.preprocess(text)
        for um in re.finditer(r'\bunion\s*\w*\s*\{', t):
            e = cxx.match_bracket(t, um.end() - 1, '{', '}')
            inner = t[um.end():e - 1]
            sib = set()
            # direct children of the union: names before ';' at depth 0, or after a nested '}'
            d = 0
            cur = ''
            for ch in inner:
                if ch == '{':
                    d += 1
                elif ch == '}':
                    d -= 1
                    cur = ''
                elif ch == ';' and d == 0:
                    for nm in re.findall(r'(\w+)\s*(?:\[[^\]]*\])?\s*(?::\s*\d+)?\s*(?:,|$)', cur.strip() + ','):
                        sib.add(nm)
                    mm = re.findall(r'(\w+)\s*(?:\[[^\]]*\])?\s*$', cur.strip())
                    if mm:
                        sib.add(mm[-1])
                    cur = ''
                elif d == 0:
                    cur += ch
            sib -= {'uint8_t', 'uint16_t', 'uint32_t', 'uint64_t', 'struct', 'union'}
            if len(sib) > 1:
                union_groups.append(sib)

    def member_names(body):
        return set(re.findall(r'[.>](\w+)', body))

    def union_alias(b1, b2):
        m1, m2 = member_names(b1), member_names(b2)
        for grp in union_groups:
            a1, a2 = m1 & grp, m2 & grp
            if a1 and a2 and a1 != a2:
                return True
        return False
    acc_body = {}
    for g_, (rt_, b_, w_) in ok_get.items():
        acc_body[g_] = acc_body.get(g_, '') + b_
    for s_, (rt_, pn_, b_, w_) in ok_set.items():
        acc_body[s_] = acc_body.get(s_, '') + b_
    auto_waived = []

    def waived(f, g):
        if f != g and union_alias(acc_body.get(f, ''), acc_body.get(g, '')):
            if (f, g) not in auto_waived and (g, f) not in auto_waived:
                auto_waived.append((f, g))
            return True
        return _waived(f, g)

    def _waived(f, g):
        for a, b_, why in waivers:
            if (a == f and b_ == g) or (a == g and b_ == f) or (a == f and b_ == '*') or (a == g and b_ == '*'):
                return True
        return False

    def eq(rt, x, y):
        if rt[1] == 'ipv4':
            return '(%s).ip_addr_ == (%s).ip_addr_' % (x, y)
        if rt[1] == 'bool':
            return 'TINS_BEQ(%s, %s)' % (x, y)
        return '(%s) == (%s)' % (x, y)

    def decl_value(rt, var):
        c = ctype_of(rt)
        if rt[1] == 'small':
            return '%s %s; __CPROVER_assume(%s <= %dull);' % (c, var, var, (1 << rt[2]) - 1)
        if rt[1] == 'bool':
            return '_Bool %s = nondet_bool() ? 1 : 0;' % var
        if rt[1] == 'enum':
            return '%s %s; __CPROVER_assume(%s);' % (c, var, ' || '.join('%s == %s' % (var, e) for e in enum_values[c]))
        return '%s %s;' % (c, var)
    h = []
    h.append('void h_c15(void) {')
    h.append('  %s* a = malloc(sizeof(%s)); %s* b = malloc(sizeof(%s)); %s* c = malloc(sizeof(%s));' % (k, k, k, k, k, k))
    h.append('  unsigned which; size_t kk; __CPROVER_assume(kk < sizeof(%s));' % k)
    idx = 0
    npairs = ninterf = ncomm = 0
    names = sorted(ok_set)
    for s in names:
        rt, pname, b, where = ok_set[s]
        h.append('  if (which == %d) { %s' % (idx, decl_value(rt, 'v')))
        h.append('    *b = *a; %s_set_%s(b, v);' % (k, s))
        if s in ok_get and not waived(s, s):
            grt = ok_get[s][0]
            if grt[1] == rt[1] or (grt[1] in ('int', 'small', 'enum') and rt[1] in ('int', 'small', 'enum')):
                h.append('    __CPROVER_assert(%s, "inverse: %s::%s get(set(v)) == v for every value of the parameter type");' % (eq(rt, '%s_get_%s(b)' % (k, s), 'v'), k, s))
                h.append('    { %s v0 = %s_get_%s(a); *c = *b; %s_set_%s(c, v0); __CPROVER_assert(%s, "inverse: %s::%s get(set(v0)) == v0 for every value v0 the field can hold"); }' % (ctype_of(grt), k, s, k, s, eq(grt, '%s_get_%s(c)' % (k, s), 'v0'), k, s))
                npairs += 1
        for g in sorted(ok_get):
            if g == s or waived(s, g):
                continue
            h.append('    __CPROVER_assert(%s, "non-interference: %s::%s(v) keeps %s()");' % (eq(ok_get[g][0], '%s_get_%s(b)' % (k, g), '%s_get_%s(a)' % (k, g)), k, s, g))
            ninterf += 1
        h.append('    TINS_REACH("set_%s"); }' % s)
        idx += 1
    for i, s in enumerate(names):
        for t in names[i + 1:]:
            if waived(s, t):
                continue
            rs, rt_ = ok_set[s][0], ok_set[t][0]
            h.append('  if (which == %d) { %s %s' % (idx, decl_value(rs, 'v'), decl_value(rt_, 'w')))
            h.append('    *b = *a; %s_set_%s(b, v); %s_set_%s(b, w); *c = *a; %s_set_%s(c, w); %s_set_%s(c, v);' % (k, s, k, t, k, t, k, s))
            h.append('    __CPROVER_assert(((const uint8_t*)b)[kk] == ((const uint8_t*)c)[kk], "commutation: %s::%s and %s::%s write disjoint bits"); }' % (k, s, k, t))
            idx += 1
            ncomm += 1
    h.append('  TINS_REACH("post");')
    h.append('}')
    out += h
    meta = {'class': k, 'functions': funcs, 'setters': len(ok_set), 'getters': len(ok_get), 'inverse_pairs': npairs,
            'non_interference_checks': ninterf, 'commutation_checks': ncomm,
            'skipped_accessors': [{'accessor': '%s::%s' % (k, s), 'reason': r} for s, r in skipped],
            'waived_pairs': [{'a': a, 'b': b_, 'reason': why} for a, b_, why in waivers],
            'union_alias_pairs': [list(x) for x in auto_waived], 'rules': dict(log.fired)}
    out.insert(7, '#! funcs-json: yes')
    out.insert(8, '#! anchors: %d setters and %d getters of class %s (%s)' % (len(ok_set), len(ok_get), k, ci.header))
    return '\n'.join(out) + '\n', meta


if __name__ == '__main__':
    os.makedirs('/tmp/c15gen', exist_ok=True)
    for p in generate('/tmp/c15gen', 'quick'):
        m = json.load(open(p + '.json'))
        print(m['class'], 'setters', m['setters'], 'getters', m['getters'], 'inv', m['inverse_pairs'], 'ni', m['non_interference_checks'], 'comm', m['commutation_checks'], 'skipped', [(s['accessor'], s['reason']) for s in m['skipped_accessors']])
