"""C15 (wire positions, consistency part): every packed header struct that declares its bit-fields twice, once under
`#if TINS_IS_LITTLE_ENDIAN` and once for big-endian hosts, must put every field on the SAME wire bits in both declarations
and every enum that declares its enumerators once per byte order (16-bit constants kept in wire order in memory) must declare byte-swapped, pairwise distinct values
(GCC allocates bit-fields from the least significant bit of the storage unit on little-endian targets and from the most
significant bit on big-endian ones; the unit itself is stored in host byte order).  The wire format is one, so the two
declarations are two descriptions of it: a field moved in only one of them (an edit made and tested on one kind of host)
changes the serialization there.  Layouts are computed here from the header text; one obligation per struct is emitted into a
C unit so that the usual reporting applies.  Only the verified configuration (little-endian) is otherwise under contract."""
import glob
import os
import re

REPO = os.environ.get('VERIF_REPO', '/repo')
WIDTH = {'uint8_t': 8, 'uint16_t': 16, 'uint32_t': 32, 'uint64_t': 64, 'int8_t': 8, 'int16_t': 16, 'int32_t': 32}


def parse_decls(text):
    """-> list of (type, name, bits|None, array_len|None) in declaration order; None if something is not understood"""
    out = []
    text = re.sub(r'/\*.*?\*/', '', text, flags=re.S)
    text = re.sub(r'//[^\n]*', '', text)
    text = re.sub(r'\bTINS_(BEGIN|END)_PACK\b', '', text)
    for stmt in text.split(';'):
        stmt = stmt.strip()
        if not stmt:
            continue
        m = re.match(r'^([A-Za-z_][\w:]*)\s+(.*)$', stmt, re.S)
        if not m:
            return None
        ty, rest = m.group(1), m.group(2)
        for part in rest.split(','):
            part = part.strip()
            pm = re.match(r'^(\w+)\s*(?::\s*(\d+))?\s*(?:\[\s*(\w+)\s*\])?$', part)
            if not pm:
                return None
            out.append((ty, pm.group(1), int(pm.group(2)) if pm.group(2) else None, pm.group(3)))
    return out


def wire_map(decls, little):
    """field name -> list of (byte offset within the run of bit-field units, bit in byte), most significant field bit first"""
    res = {}
    byte_base = 0
    i = 0
    while i < len(decls):
        ty, name, bits, arr = decls[i]
        if bits is None:
            i += 1
            if ty not in WIDTH or arr is not None and not arr.isdigit():
                byte_base = None      # size unknown: stop mapping (bit-field groups seen so far are kept)
                break
            byte_base += WIDTH[ty] // 8 * (int(arr) if arr else 1)
            continue
        if ty not in WIDTH:
            return None
        w = WIDTH[ty]
        used = 0
        while i < len(decls) and decls[i][2] is not None and decls[i][0] == ty:
            _, fname, n, _ = decls[i]
            if used + n > w:          # next storage unit
                if used != w:
                    return None       # straddling / holes: not analysed
                byte_base += w // 8
                used = 0
            pos = []
            for k in range(n - 1, -1, -1):            # k-th bit of the field value, most significant first
                vbit = (used + k) if little else (w - used - n + k)      # bit of the unit's value
                byte = (vbit // 8) if little else ((w - 1 - vbit) // 8)  # where that bit lives in memory
                pos.append((byte_base + byte, vbit % 8))
            res[fname] = pos
            used += n
            i += 1
        if used != w:
            return None
        byte_base += w // 8
    return res


def scan():
    rows = []   # (file, line, struct name, ok, detail)
    for h in sorted(glob.glob(os.path.join(REPO, 'include', 'tins', '**', '*.h'), recursive=True)):
        txt = open(h, errors='replace').read()
        for m in re.finditer(r'#\s*if\s+TINS_IS_LITTLE_ENDIAN[^\n]*\n(.*?)#\s*(?:else|elif\s+TINS_IS_BIG_ENDIAN)[^\n]*\n(.*?)#\s*endif', txt, re.S):
            le, be = m.group(1), m.group(2)
            line = txt[:m.start()].count('\n') + 1
            rel = os.path.relpath(h, REPO)
            pairs = []
            em = None
            for em in re.finditer(r'\benum\s+(\w+)\s*\{', txt[:m.start()]):
                pass
            if em and '}' not in txt[em.end():m.start()] and re.match(r'^\s*\w+\s*=', le):
                # enumerators declared per byte order (constants kept in wire order in memory): the little-endian value must be the
                # byte swap of the big-endian one, and no two enumerators of the enum may share a value
                def enums(t):
                    return dict((a, int(b, 0)) for a, b in re.findall(r'\b(\w+)\s*=\s*(0[xX][0-9a-fA-F]+|\d+)', re.sub(r'//[^\n]*', '', t)))
                el, eb = enums(le), enums(be)
                whole_end = txt.index('}', m.end())
                outside = enums(txt[em.end():m.start()] + txt[m.end():whole_end])
                bad = ['%s (little-endian 0x%04x, big-endian 0x%04x)' % (k, el[k], eb[k]) for k in sorted(set(el) & set(eb))
                       if el[k] != (((eb[k] & 0xff) << 8) | (eb[k] >> 8))]
                missing = sorted(set(el) ^ set(eb))
                allv = dict(outside); allv.update(el)
                dup = sorted(k for k in allv if sum(1 for j in allv if allv[j] == allv[k]) > 1)
                detail = []
                if bad: detail.append('not the byte swap of each other: ' + ', '.join(bad))
                if missing: detail.append('declared for one byte order only: ' + ', '.join(missing))
                if dup: detail.append('enumerators sharing a value on this host: ' + ', '.join('%s=0x%x' % (k, allv[k]) for k in dup))
                rows.append((rel, line, 'enum ' + em.group(1), not detail, '; '.join(detail) if detail else
                             '%d enumerators declared per byte order, each the byte swap of the other, all %d values of the enum distinct' % (len(el), len(allv))))
                continue
            if re.search(r'\bstruct\s+\w+\s*\{', le):      # whole struct definitions per byte order (TCP flags, LLC control fields)
                sl = dict(re.findall(r'\bstruct\s+(\w+)\s*\{(.*?)\}', le, re.S))
                sb = dict(re.findall(r'\bstruct\s+(\w+)\s*\{(.*?)\}', be, re.S))
                for nm in sorted(set(sl) & set(sb)):
                    pairs.append((nm, sl[nm], sb[nm]))
            else:
                if ':' not in le or '(' in le or '(' in be:     # no bit-fields / code, not declarations
                    continue
                sm = None
                for sm in re.finditer(r'\b(?:struct|class)\s+(\w+)\s*\{', txt[:m.start()]):
                    pass
                pairs.append((sm.group(1) if sm else '?', le, be))
            for sname, le_, be_ in pairs:
                dl, db = parse_decls(le_), parse_decls(be_)
                if dl is None or db is None:
                    rows.append((rel, line, sname, None, 'declarations not understood'))
                    continue
                ml, mb = wire_map(dl, True), wire_map(db, False)
                if ml is None or mb is None:
                    rows.append((rel, line, sname, None, 'bit-field groups do not fill their storage units'))
                    continue
                common = [f for f in sorted(set(ml) & set(mb)) if len(ml[f]) == len(mb[f])]     # same name and width: the same protocol field
                bad = [f for f in common if ml[f] != mb[f]]
                rows.append((rel, line, sname, not bad, ('fields on different wire bits in the two declarations: ' + ', '.join(
                    '%s (little-endian decl: byte %s mask 0x%02x; big-endian decl: byte %s mask 0x%02x)' % (
                        f, ml[f][0][0], sum(1 << b for _, b in ml[f]) & 0xff, mb[f][0][0], sum(1 << b for _, b in mb[f]) & 0xff) for f in bad[:4])) if bad
                             else '%d bit-fields declared under the same name and width in both, all on the same wire bits' % len(common)))
    return rows


def generate(outdir, tier):
    rows = scan()
    lines = ['#! unit: c15.endian_layouts', '#! property: C15', '#! mode: proof', '#! pipeline: plain', '#! entry: h',
             '#! anchors: bit-field header structs declared per byte order: ' + '; '.join('%s (%s:%d)' % (r[2], r[0], r[1]) for r in rows),
             '#! assumed: GCC bit-field allocation rule (from the least significant bit on little-endian targets, from the most significant bit on big-endian ones; units in host byte order); layouts are computed by specs/C15/endian_layouts.gen.py from the header text, not by the verifier; whether the common layout is the one the protocol standard prescribes is not decided here',
             'void h(void) {']
    n_ok = 0
    for rel, line, sname, ok, detail in rows:
        msg = ('%s (%s:%d): %s' % (sname, rel, line, detail)).replace('"', "'")
        if ok is None:
            lines.append('  /* not analysed: %s */' % msg)
            continue
        n_ok += 1
        lines.append('  __CPROVER_assert(%d, "both byte-order declarations of a header put every field on the same wire bits: %s");' % (1 if ok else 0, msg))
    lines.append('  __CPROVER_assert(%d > 0, "at least one struct was analysed");' % n_ok)
    lines.append('  TINS_REACH("post");\n}')
    p = os.path.join(outdir, 'endian_layouts.unit')
    with open(p, 'w') as f:
        f.write('\n'.join(lines) + '\n')
    return [p]
