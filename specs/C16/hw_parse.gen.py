"""hw.parse_*: Internals::string_to_hw_address from one template.

hw.parse_canonical: for every 6-octet address, parsing the text the real hw_address_to_string produces gives the address back (complete: the loops are
bounded by the 17 characters of the form).
hw.parse_rejects: every string of at most L characters, parsed into N octets: an accepted string has the documented form
("00:01:da:fa:...": two hex digits per octet, ':' between octets, at most N octets, fewer are zero-filled) and its octets
are the parsed values.  Quick: N=3, L=10; thorough: N=6, L=19 (every string a 6-octet address can consume, plus one)."""
import os

TOSTRING = r'''
typedef struct { char p[32]; unsigned n; } STRB;     /* std::string being built: push_back only */
static void STRB_push(STRB* s, char c) { __CPROVER_assert(s->n < 32, "model string capacity"); s->p[s->n++] = c; }
//@ func src/hw_address.cpp hw_address_to_string
sig: static void hw_address_to_string(const uint8_t* ptr, size_t count, STRB* output)
rule: string output; ==> output->n = 0;
rule?: output\.reserve\([^;]*\); ==> ;
rule: output \+= ":"; ==> STRB_push(output, ':');
rule: output \+= (\w+); ==> STRB_push(output, \1);
rule: return output; ==> return;
//@ endfunc
'''

CANON = r'''
void h(void) {
  uint8_t W_a[6]; for (int i = 0; i < 6; ++i) W_a[i] = nondet_uint8_t();
  STRB text; hw_address_to_string(W_a, 6, &text);          /* the real HWAddress::to_string / operator<< */
  static const char dig[] = "0123456789abcdef";
  __CPROVER_assert(text.n == 17, "the textual form of a 6-octet address has 17 characters");
  for (int i = 0; i < 6; ++i) __CPROVER_assert(text.p[3 * i] == dig[W_a[i] >> 4] && text.p[3 * i + 1] == dig[W_a[i] & 15] && (i == 5 || text.p[3 * i + 2] == ':'), "the textual form is two lower-case hex digits per octet, ':' between octets");
  STR str = { text.p, text.n };
  uint8_t out[6];
  string_to_hw_address(&str, out, 6);
  for (int i = 0; i < 6; ++i) __CPROVER_assert(out[i] == W_a[i], "parsing the textual form of an address returns the same address");
  TINS_REACH("post");
}
'''

REJECT = r'''
void h(void) {
  char W_s[L + 1]; for (int i = 0; i <= L; ++i) W_s[i] = nondet_char();
  unsigned W_n = nondet_unsigned(); __CPROVER_assume(W_n <= L);
  unsigned W_N = N;
  STR str = { W_s, W_n };
  uint8_t out[N];
  string_to_hw_address(&str, out, N);
  /* the string was accepted: it has the documented form */
  unsigned pos = 0, groups = 0;
  for (int g = 0; g < N; ++g) if (pos < W_n) {
    unsigned d = 0; uint8_t v = 0;
    for (int k = 0; k < 2; ++k) if (pos < W_n && ishex(W_s[pos])) { v = (uint8_t)((v << 4) | hexval(W_s[pos])); ++pos; ++d; }
    if (pos == W_n) __CPROVER_assert(d == 2, "rejected: a group cut short by the end of the string (an octet is two hex digits)");
    else            __CPROVER_assert(d == 2, "rejected: a group of fewer than two hex digits before ':' (an octet is two hex digits)");
    if (d == 2) __CPROVER_assert(out[groups] == v, "an accepted string gives the octets it spells");
    ++groups;
    if (pos < W_n) {
      __CPROVER_assert(W_s[pos] == ':', "rejected: anything but ':' after an octet (a third digit, another character)");
      ++pos;
      __CPROVER_assert(pos < W_n, "rejected: a string that ends with ':'");
    }
  }
  __CPROVER_assert(pos >= W_n, "rejected: text after the last octet the address type holds");
  for (int g = 0; g < N; ++g) if (g >= groups) __CPROVER_assert(out[g] == 0, "octets the string does not spell are zero");
  TINS_REACH("post");
}
'''


def generate(outdir, tier):
    here = os.path.dirname(os.path.abspath(__file__))
    tm = open(os.path.join(here, 'hw_parse.tmpl')).read()
    n, l = (6, 19) if tier == 'thorough' else (3, 10)
    out = []
    for name, sub in (
        ('canonical', {'MODE': 'proof', 'BOUND': 'none: the loops run over the 17 characters of the textual form (unwinding assertions on)', 'UNWIND': '20',
                       'ALLOWEXC': '#! allow-exc: none\n#! unreach: string_to_hw_address.L2', 'N': '6', 'L': '17', 'HARNESS': CANON, 'TOSTRING': TOSTRING,
                       'MUTANT': "mutant: hw_addr\\[i\\] - 'a' \\+ 10 ==> hw_addr[i] - 'a' + 11"}),
        ('rejects', {'MODE': 'bounded', 'BOUND': 'strings of at most %d characters parsed into %d octets (every string the parser can consume for that width, plus one character)' % (l, n), 'UNWIND': str(l + 3),
                     'ALLOWEXC': '#! allow-exc: invalid_address', 'N': str(n), 'L': str(l), 'HARNESS': REJECT, 'TOSTRING': '',
                     'MUTANT': 'mutant: while \\(i < end\\) ==> while (i < end && i < hw_addr.size())'}),
    ):
        t = tm
        sub = dict(sub, NAME=name)
        for k, v in sub.items():
            t = t.replace('@%s@' % k, v)
        assert '@' not in t.replace('//@', ''), t
        p = os.path.join(outdir, 'hw_parse_%s.unit' % name)
        with open(p, 'w') as f:
            f.write(t)
        out.append(p)
    return out
