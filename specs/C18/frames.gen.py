"""C18 (premise only): libtins keeps no hidden shared MUTABLE state.

Contracts cannot talk about schedules.  What is decided here is the premise the property rests on (its `mechanism` list):
every object with static storage duration that the library's own code defines is immutable after initialisation, or is a
user registry written only through the registration API.  The inventory is taken from the objects compiled from the working
tree on every run (nm: symbols in .data/.bss), so a static added anywhere in src/ or instantiated from a header shows up;
each symbol is then classified from its declaration and its uses in the source, by the rules below.  One obligation per
symbol is emitted into a C unit so that the usual machinery reports it.  (Frames of the functions under contract -- their
assigns clauses exclude every static object -- are enforced in the units of C01..C19 themselves.)"""
import glob
import os
import re
import subprocess

REPO = os.environ.get('VERIF_REPO', '/repo')
WRITE_METHODS = r'clear|reserve|resize|push_back|emplace_back|emplace|insert|assign|erase|swap|pop_back|append|reset|operator\s*='


class Err(Exception):
    pass


def _sources():
    out = {}
    for p in sorted(glob.glob(os.path.join(REPO, 'src', '**', '*.cpp'), recursive=True)) + sorted(glob.glob(os.path.join(REPO, 'include', 'tins', '**', '*.h'), recursive=True)):
        txt = open(p, errors='replace').read()
        txt = re.sub(r'/\*.*?\*/', lambda m: re.sub(r'[^\n]', ' ', m.group(0)), txt, flags=re.S)
        txt = re.sub(r'//[^\n]*', '', txt)
        out[os.path.relpath(p, REPO)] = txt
    return out


def inventory(outdir):
    d = os.path.join(outdir, 'c18_objs')
    os.makedirs(d, exist_ok=True)
    srcs = sorted(glob.glob(os.path.join(REPO, 'src', '**', '*.cpp'), recursive=True))
    script = "printf '%s\\n' " + ' '.join(srcs) + " | xargs -P 16 -I{} sh -c 'g++ -std=c++11 -O0 -w -I%s/include -c {} -o %s/$(echo {} | md5sum | cut -c1-12).o'" % (REPO, d)
    r = subprocess.run(script, shell=True, capture_output=True, text=True)
    if r.returncode != 0:
        raise Err('compiling the working tree failed: ' + r.stderr[-500:])
    r = subprocess.run('nm -C --defined-only %s/*.o' % d, shell=True, capture_output=True, text=True)
    syms = set()
    for ln in r.stdout.split('\n'):
        m = re.match(r'^[0-9a-f]+ ([bBdDuG]) (.*)$', ln)
        if not m:
            continue
        s = m.group(2)
        if s.startswith(('std::', 'guard variable', 'boost::', 'DW.ref', '__', 'typeinfo', 'vtable')) or not s.startswith('Tins::'):
            continue
        syms.add(s)
    subprocess.run(['rm', '-rf', d])
    return sorted(syms)


def _match_brace(txt, i):
    depth = 0
    for k in range(i, len(txt)):
        if txt[k] == '{':
            depth += 1
        elif txt[k] == '}':
            depth -= 1
            if depth == 0:
                return k
    return len(txt)


def _uses_are_reads(body, name, decl_span):
    """every use of `name` outside its declaration is an rvalue read (indexing / plain value), never a write-like use"""
    bad = []
    for m in re.finditer(r'\b%s\b' % re.escape(name), body):
        if decl_span[0] <= m.start() < decl_span[1]:
            continue
        before = body[max(0, m.start() - 3):m.start()]
        after = body[m.end():m.end() + 80]
        a = re.sub(r'^(\s*\[[^\]]*\])+', '', after)     # strip index expressions
        if re.match(r'\s*(=[^=]|\+=|-=|\*=|/=|\|=|&=|\^=|<<=|>>=|\+\+|--)', a) or re.search(r'(\+\+|--)\s*$', before):
            bad.append('assigned: ' + body[m.start():m.end() + 30].split('\n')[0])
        elif re.match(r'\s*(\.|->)\s*(%s)\b' % WRITE_METHODS, a):
            bad.append('mutating call: ' + body[m.start():m.end() + 30].split('\n')[0])
        elif re.search(r'&\s*$', before) and not re.search(r'&&\s*$', before):
            bad.append('address taken: ' + body[max(0, m.start() - 10):m.end() + 10].split('\n')[0])
        elif after == a and re.match(r'\s*[,)]', a) and not re.search(r'(sizeof|\[)\s*\(?\s*$', before):
            bad.append('passed on: ' + body[max(0, m.start() - 15):m.end() + 5].split('\n')[0])
    return bad


def classify(sym, srcs):
    """-> (ok, where, evidence)"""
    # user registries (pdu_allocator.h): written only by register_allocator
    m = re.match(r'Tins::Internals::PDUAllocator<.*>::(allocators|pdu_types)$', sym)
    if m:
        txt = srcs.get('include/tins/pdu_allocator.h', '')
        writers = set()
        for fm in re.finditer(r'\bstatic\s+[\w:<>\s\*]+?\b(\w+)\s*\([^)]*\)\s*\{', txt):
            end = _match_brace(txt, fm.end() - 1)
            body = txt[fm.end():end]
            # std::map: operator[] inserts a default element for an absent key, so ANY subscript is a write
            if _uses_are_reads(body, m.group(1), (0, 0)) or re.search(r'\b%s\s*\[' % re.escape(m.group(1)), body):
                writers.add(fm.group(1))
        ok = writers <= {'register_allocator'}
        return ok, 'include/tins/pdu_allocator.h', ('user registry (std::map): subscripted / mutated only in register_allocator (registration API); the parse path uses find()/count() only' if ok
                                                    else 'registry written by ' + ', '.join(sorted(writers)))
    sym = sym.replace('(anonymous namespace)::', '')     # an unnamed namespace is not a function signature
    fl = re.match(r'(.*)\((.*)\)(?: const)?::(\w+)$', sym)
    if fl:      # function-local static
        func = fl.group(1).split('::')[-1]
        name = fl.group(3)
        for rel, txt in srcs.items():
            for fm in re.finditer(r'\b%s\s*\([^;{}]*\)\s*(?:const\s*)?\{' % re.escape(func), txt):
                end = _match_brace(txt, fm.end() - 1)
                body = txt[fm.end():end]
                dm = re.search(r'\bstatic\b([^;=(\[]*?)\b%s\b[^;]*?(;|=\s*\{)' % re.escape(name), body)
                if not dm:
                    continue
                if dm.group(2) != ';':
                    dend = _match_brace(body, dm.end() - 1)
                else:
                    dend = dm.end()
                if re.search(r'\bconst\b', dm.group(1)):
                    return True, rel, 'function-local static declared const: read-only after its (thread-safe, C++11) initialisation'
                bad = _uses_are_reads(body, name, (dm.start(), dend))
                if bad:
                    return False, rel, 'mutable function-local static in %s(): %s' % (func, '; '.join(bad[:3]))
                return True, rel, 'function-local static in %s(), not const, but every use in the function is an rvalue read and it does not escape' % func
        raise Err('declaration of function-local static not found: ' + sym)
    # namespace-scope object or static data member: find its definition
    parts = sym.split('::')
    name = parts[-1]
    qual = parts[-2] if len(parts) > 2 else None
    qual = re.sub(r'<.*', '', qual) if qual else None
    cands = []
    for rel, txt in srcs.items():
        pats = []
        if qual and qual != 'Tins' and qual != 'Utils' and qual != 'Internals':
            pats.append(r'(^|[;}\n])([^;{}()\n]*?)\b%s(?:<[^>]*>)?::%s\b\s*(\(|=|\[|;|\{)' % (re.escape(qual), re.escape(name)))
        pats.append(r'(^|[;}\n])([ \t]*(?:static\s+)?const[^;{}()\n]*?)\b%s\b\s*(\(|=|\[|;|\{)' % re.escape(name))
        pats.append(r'(^|[;}\n])([ \t]*(?:static\s+)?[\w:<>]+[^;{}()\n=]*?)[ \*&]\b%s\b\s*(=|\[|;|\{)' % re.escape(name))
        for pi, pat in enumerate(pats):
            for dm in re.finditer(pat, txt):
                cands.append((rel, dm.group(2), pi if len(pats) == 3 else pi + 1))
    if not cands:
        raise Err('definition of static object not found: ' + sym)
    cands.sort(key=lambda c: c[2])
    best = cands[0][2]
    cands = [c for c in cands if c[2] == best]
    rel, decl = cands[0][0], cands[0][1]
    if any(re.search(r'\bconst\b', c[1]) for c in cands):
        rel = [c for c in cands if re.search(r'\bconst\b', c[1])][0][0]
        return True, rel, 'declared const: initialised before main() (namespace scope) and never written'
    return False, rel, 'static object with a non-const declaration: `%s %s`' % (decl.strip()[:80], name)


def generate(outdir, tier):
    srcs = _sources()
    try:
        syms = inventory(outdir)
        rows = [(s,) + classify(s, srcs) for s in syms]
    except Err as e:
        from vf import cxx
        raise cxx.ExtractError(str(e))
    lines = ['#! unit: statics.immutable_after_init', '#! property: C18', '#! mode: proof', '#! pipeline: plain', '#! entry: h',
             '#! anchors: every object with static storage duration defined by libtins code: ' + '; '.join('%s (%s)' % (s, w) for s, ok, w, ev in rows),
             '#! assumed: the classification of each static object is made by source rules in specs/C18/frames.gen.py (declared const / only rvalue reads / registry written only by the registration API), not by the verifier; the inventory is nm over -O0 objects of src/**/*.cpp (header-only templates never instantiated there are not seen); objects of libstdc++, OpenSSL and libpcap are outside; a schedule-level argument (disjoint objects + no shared mutable state => calls commute) is on paper',
             'void h(void) {']
    for s, ok, w, ev in rows:
        msg = ('%s [%s]: %s' % (s, w, ev)).replace('\\', '/').replace('"', "'")
        lines.append('  __CPROVER_assert(%d, "no hidden shared mutable state: %s");' % (1 if ok else 0, msg))
    lines.append('  __CPROVER_assert(%d == %d, "the inventory was taken (non-empty)");' % (len(rows) > 0, 1))
    lines.append('  TINS_REACH("post");\n}')
    p = os.path.join(outdir, 'statics.unit')
    with open(p, 'w') as f:
        f.write('\n'.join(lines) + '\n')
    return [p]
