/* REAL next-layer dispatch (src/detail/pdu_helpers.cpp), extracted each run for the plain-pipeline round-trip units.
   `new X(buffer, size)` becomes tins_new_child(CLS_X, ...): the child is its class tag (CLS_X = X::pdu_flag, read from the
   headers by the generator) and its byte count; any child constructor other than RawPDU's may reject its bytes. */
//@ enum include/tins/constants.h e as EtherE nth 1 prefix ETH_
//@ enum include/tins/constants.h e as IPProtoE nth 0
static PDU* tins_new_child_t(int type, const uint8_t* ptr, uint32_t n) {
  if (type != PT_RAW && nondet_bool()) TINS_THROW(malformed_packet);   /* the child's own constructor rejects */
  PDU* c = tins_new_child(type, ptr, n); c->aux_ = nondet_uint8_t();
  if (type != PT_RAW && nondet_bool()) {   /* the child may have parsed a child of its own, of any class */
    int gt = nondet_int(); __CPROVER_assume(gt >= 0 && gt <= 1100);
    PDU* g = malloc(sizeof(PDU)); __CPROVER_assume(g != NULL);
    g->inner_pdu_ = NULL; g->parent_pdu_ = c; g->type_ = gt; g->size_ = nondet_uint32_t(); g->src_ = NULL; g->aux_ = 0; __CPROVER_assume(g->size_ >= 1 && g->size_ <= n);
    c->inner_pdu_ = g;
  }
  return c;
}
#define new_RawPDU(p, n) tins_new_child_t(PT_RAW, (p), (n))
#define new_IP(p, n) tins_new_child_t(CLS_IP, (p), (n))
#define new_IPv6(p, n) tins_new_child_t(CLS_IPv6, (p), (n))
#define new_ARP(p, n) tins_new_child_t(CLS_ARP, (p), (n))
#define new_PPPoE(p, n) tins_new_child_t(CLS_PPPoE, (p), (n))
#define new_Dot1Q(p, n) tins_new_child_t(CLS_Dot1Q, (p), (n))
#define new_MPLS(p, n) tins_new_child_t(CLS_MPLS, (p), (n))
#define new_LLC(p, n) tins_new_child_t(CLS_LLC, (p), (n))
#define new_TCP(p, n) tins_new_child_t(CLS_TCP, (p), (n))
#define new_UDP(p, n) tins_new_child_t(CLS_UDP, (p), (n))
#define new_ICMP(p, n) tins_new_child_t(CLS_ICMP, (p), (n))
#define new_ICMPv6(p, n) tins_new_child_t(CLS_ICMPv6, (p), (n))
#define new_IPSecAH(p, n) tins_new_child_t(CLS_IPSecAH, (p), (n))
#define new_IPSecESP(p, n) tins_new_child_t(CLS_IPSecESP, (p), (n))
#define new_EthernetII(p, n) tins_new_child_t(CLS_EthernetII, (p), (n))
/* EAPOL::from_bytes: an RC4EAPOL or RSNEAPOL chosen by the key-descriptor octet of the payload, or a rejection (C01 eapol.from_bytes) */
static PDU* EAPOL_from_bytes(const uint8_t* p, uint32_t n) { return tins_new_child_t(nondet_bool() ? CLS_RC4EAPOL : CLS_RSNEAPOL, p, n); }
//@ func src/detail/pdu_helpers.cpp pdu_from_flag match "Constants::Ethernet::e flag"
sig: static PDU* Internals_pdu_from_flag4(int flag, const uint8_t* buffer, uint32_t size, _Bool rawpdu_on_no_match)
rule: (?:Tins::)?Constants::Ethernet::(\w+) ==> ETH_\1
rule?: new (?:Tins::)?(\w+)\(buffer, size\) ==> new_\1(buffer, size)
rule: EAPOL::from_bytes\( ==> EAPOL_from_bytes(
rule: PDU\* pdu = Internals_allocate\(.*?\); ==> PDU* pdu = NULL; /* Internals::allocate<EthernetII>: no user-registered types */
//@ endfunc
#define Internals_pdu_from_flag(f, b, s) Internals_pdu_from_flag4((f), (b), (s), 1)   /* rawpdu_on_no_match defaults to true (pdu_helpers.h) */
//@ func src/detail/pdu_helpers.cpp pdu_flag_to_ether_type
sig: static int Internals_pdu_flag_to_ether_type(int flag)
rule: (?:Tins::)?Constants::Ethernet::(\w+) ==> ETH_\1
rule: if \(Internals_pdu_type_registered\(flag\)\) \{.*?\}\s*return ETH_UNKNOWN; ==> return ETH_UNKNOWN; /* no user-registered types */
//@ endfunc
//@ func src/detail/pdu_helpers.cpp pdu_flag_to_ip_type
sig: static int Internals_pdu_flag_to_ip_type(int flag)
rule?: \(\(?Constants::IP::e\)\s*\(?0xff\)?\)? ==> 0xff
rule: Constants::IP::(\w+) ==> \1
//@ endfunc
/* which class a tag dispatches to (the class tag of the child pdu_from_flag would build; EAPOL's two subclasses count as one) */
static int tins_ether_dispatch_class(int tag) {
  switch (tag) {
    case ETH_IP: return CLS_IP; case ETH_IPV6: return CLS_IPv6; case ETH_ARP: return CLS_ARP;
    case ETH_PPPOED: case ETH_PPPOES: return CLS_PPPoE; case ETH_EAPOL: return CLS_EAPOL;
    case ETH_VLAN: case ETH_QINQ: case ETH_OLD_QINQ: return CLS_Dot1Q; case ETH_MPLS: return CLS_MPLS;
    default: return PT_RAW;
  }
}
static int tins_loopback_class(uint32_t fam) { return fam == 2 ? CLS_IP : fam == 10 ? CLS_IPv6 : fam == 26 ? CLS_LLC : PT_RAW; }
