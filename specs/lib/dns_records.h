/* DNS section decoding (src/dns.cpp): contracts for compose_name (as used by its callers) and convert_records */
VEC G_rd;   /* this->records_data_ */
#define RD_VALID (G_rd.size >= 1 && G_rd.size <= 65535 && __CPROVER_r_ok(G_rd.data, G_rd.size))
#define IN_RD(p) (__CPROVER_same_object((p), G_rd.data) && __CPROVER_POINTER_OFFSET(p) >= 0 && __CPROVER_POINTER_OFFSET(p) <= G_rd.size)
/* compose_name(ptr, out): ptr anywhere in [data, data+size]; out has room for 256 chars; the result is only used as a skip count */
uint32_t DNS_compose_name(const uint8_t* ptr, char* out_ptr)
__CPROVER_requires(RD_VALID && IN_RD(ptr))
__CPROVER_requires(__CPROVER_w_ok(out_ptr, 256))
__CPROVER_assigns(__CPROVER_object_whole(out_ptr))
;
#define CONVERT_RECORDS_CONTRACT \
  __CPROVER_requires(RD_PRE && IN_RD(ptr) && IN_RD(end) && __CPROVER_POINTER_OFFSET(ptr) <= __CPROVER_POINTER_OFFSET(end)) \
  __CPROVER_assigns()
