/* DNS record-area walkers (src/dns.cpp): they only move the cursor forward inside its window */
#define IMS_MOVED_FORWARD(s) ((s)->size_ <= __CPROVER_old((s)->size_) && (s)->buffer_ == __CPROVER_old((s)->buffer_) + (__CPROVER_old((s)->size_) - (s)->size_))
#define DNS_SKIP_DNAME_CONTRACT \
  __CPROVER_requires(IMS_PRE(stream)) \
  __CPROVER_assigns(*stream) \
  __CPROVER_ensures(IMS_MOVED_FORWARD(stream)) \
  __CPROVER_ensures(IMS_VALID(stream))
#define DNS_SKIP_SECTION_CONTRACT DNS_SKIP_DNAME_CONTRACT
#ifndef DNS_SKIP_BODIES
void DNS_skip_to_dname_end(IMS* stream) DNS_SKIP_DNAME_CONTRACT;
void DNS_skip_to_section_end(IMS* stream, const uint32_t num_records) DNS_SKIP_SECTION_CONTRACT;
#endif
