/* R9: the library's own byte-swap bodies (include/tins/endianness.h) */
//@ func include/tins/endianness.h do_change_endian match "uint16_t data"
sig: uint16_t Endian_swap16(uint16_t data)
//@ endfunc
//@ func include/tins/endianness.h do_change_endian match "uint32_t data"
sig: uint32_t Endian_swap32(uint32_t data)
//@ endfunc
//@ func include/tins/endianness.h do_change_endian match "uint64_t data"
sig: uint64_t Endian_swap64(uint64_t data)
//@ endfunc
