/* HWAddress<6>: six bytes. operator== is Internals::hw_address_equal_compare = std::equal over the 6 bytes
   (libstdc++ assumed); modelled loop-free. */
typedef struct { uint8_t buffer_[6]; } HW6;
#define HW6_eq(a, b) ((a)[0]==(b)[0] && (a)[1]==(b)[1] && (a)[2]==(b)[2] && (a)[3]==(b)[3] && (a)[4]==(b)[4] && (a)[5]==(b)[5])
static const uint8_t HW6_broadcast[6] = { 0xff, 0xff, 0xff, 0xff, 0xff, 0xff };
#define HW6_is_broadcast(a) HW6_eq(a, HW6_broadcast)
/* HWAddress::is_multicast: (*begin() & 0x01); is_unicast: !is_broadcast() && !is_multicast() (hw_address.h) */
#define HW6_is_multicast(a) (((a)[0] & 0x01) != 0)
#define HW6_is_unicast(a) (!HW6_is_broadcast(a) && !HW6_is_multicast(a))
