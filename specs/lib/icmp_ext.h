/* ICMP extension parsing (src/icmp_extension.cpp, src/detail/icmp_extension_helpers.cpp): contracts shared by the units */
#define ICMP_EXT_RANGE_CONTRACT \
  __CPROVER_requires(total_sz <= 65535 && TINS_PRE_R(buffer, total_sz)) \
  __CPROVER_assigns()
#define TRY_PARSE_EXT_CONTRACT \
  __CPROVER_requires(IMS_PRE(stream)) \
  __CPROVER_assigns(*stream) \
  __CPROVER_ensures(stream->buffer_ == __CPROVER_old(stream->buffer_) && stream->size_ <= __CPROVER_old(stream->size_)) \
  __CPROVER_ensures(IMS_VALID(stream))
#ifndef ICMP_EXT_BODIES
void ICMPExtension_ctor(const uint8_t* buffer, uint32_t total_sz) ICMP_EXT_RANGE_CONTRACT;
void ICMPExtensionsStructure_ctor(const uint8_t* buffer, uint32_t total_sz) ICMP_EXT_RANGE_CONTRACT;
_Bool ICMPExtensionsStructure_validate_extensions(const uint8_t* buffer, uint32_t total_sz) ICMP_EXT_RANGE_CONTRACT;
void Internals_try_parse_icmp_extensions(IMS* stream, uint32_t payload_length) TRY_PARSE_EXT_CONTRACT;
#endif
uint16_t Utils_sum_range(const uint8_t* start, const uint8_t* end)
__CPROVER_requires(__CPROVER_same_object(start, end) && __CPROVER_POINTER_OFFSET(start) <= __CPROVER_POINTER_OFFSET(end))
__CPROVER_requires(__CPROVER_r_ok(start, __CPROVER_POINTER_OFFSET(end) - __CPROVER_POINTER_OFFSET(start)))
__CPROVER_assigns()
;
