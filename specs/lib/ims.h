/* Memory::InputMemoryStream (include/tins/memory_helpers.h, src/memory_helpers.cpp): the bounds-checked input cursor.
   The contracts below are the ones ENFORCED on the extracted bodies in C01/cursor_ims.unit and USED (by replacement)
   in every parser unit. ensures describe normal return; a throwing path ends the caller's path (no handler between). */
typedef struct { const uint8_t* buffer_; size_t size_; } IMS;
/* preconditions are spelled with TINS_PRE_R / TINS_PRE_W: r_ok / w_ok where a contract is USED (checked at the call
   site), is_fresh where it is ENFORCED on the body (the unit redefines the two macros just before the body) */
#ifndef TINS_PRE_R
#define TINS_PRE_R(p, n) __CPROVER_r_ok((p), (n))
#define TINS_PRE_W(p, n) __CPROVER_w_ok((p), (n))
#endif
#define IMS_PRE(s) (TINS_PRE_R((s), sizeof(IMS)) && (s)->size_ <= 65535 && TINS_PRE_R((s)->buffer_, (s)->size_))
#define IMS_VALID(s) (__CPROVER_r_ok((s), sizeof(IMS)) && (s)->size_ <= 65535 && __CPROVER_r_ok((s)->buffer_, (s)->size_))
#define IMS_ADVANCED(s, n) ((n) <= __CPROVER_old((s)->size_) && (s)->size_ == __CPROVER_old((s)->size_) - (n) && (s)->buffer_ == __CPROVER_old((s)->buffer_) + (n))

#define IMS_CTOR_CONTRACT \
  __CPROVER_requires(TINS_PRE_W(this, sizeof(IMS))) \
  __CPROVER_assigns(*this) \
  __CPROVER_ensures(this->buffer_ == buffer && this->size_ == total_sz)
#define IMS_SKIP_CONTRACT \
  __CPROVER_requires(IMS_PRE(this)) \
  __CPROVER_assigns(*this) \
  __CPROVER_ensures(IMS_ADVANCED(this, size)) \
  __CPROVER_ensures(IMS_VALID(this))
#define IMS_CAN_READ_CONTRACT \
  __CPROVER_requires(IMS_PRE(this)) \
  __CPROVER_assigns() \
  __CPROVER_ensures(TINS_BEQ(__CPROVER_return_value, this->size_ >= byte_count))
#define IMS_READ_OBJ_CONTRACT \
  __CPROVER_requires(IMS_PRE(this)) \
  __CPROVER_requires(n <= 65535 && TINS_PRE_W(output, n)) \
  __CPROVER_assigns(*this, __CPROVER_object_upto(output, n)) \
  __CPROVER_ensures(IMS_ADVANCED(this, n)) \
  __CPROVER_ensures(IMS_VALID(this)) \
  __CPROVER_ensures(n >= 1 ==> ((const uint8_t*)output)[0] == __CPROVER_old(this->buffer_)[0]) \
  __CPROVER_ensures(n >= 2 ==> ((const uint8_t*)output)[1] == __CPROVER_old(this->buffer_)[1])
#define IMS_READ_U8_CONTRACT \
  __CPROVER_requires(IMS_PRE(this)) \
  __CPROVER_assigns(*this) \
  __CPROVER_ensures(IMS_ADVANCED(this, 1)) \
  __CPROVER_ensures(IMS_VALID(this)) \
  __CPROVER_ensures(__CPROVER_return_value == __CPROVER_old(this->buffer_)[0])
#define IMS_READ_N_CONTRACT(N) \
  __CPROVER_requires(IMS_PRE(this)) \
  __CPROVER_assigns(*this) \
  __CPROVER_ensures(IMS_ADVANCED(this, N)) \
  __CPROVER_ensures(IMS_VALID(this))
#define IMS_READ_BE16_CONTRACT \
  IMS_READ_N_CONTRACT(2) \
  __CPROVER_ensures(__CPROVER_return_value == (uint16_t)((__CPROVER_old(this->buffer_)[0] << 8) | __CPROVER_old(this->buffer_)[1]))
#define IMS_POINTER_CONTRACT \
  __CPROVER_requires(IMS_PRE(this)) \
  __CPROVER_assigns() \
  __CPROVER_ensures(__CPROVER_return_value == this->buffer_)
#define IMS_SIZE_CONTRACT \
  __CPROVER_requires(IMS_PRE(this)) \
  __CPROVER_assigns() \
  __CPROVER_ensures(__CPROVER_return_value == this->size_)
#define IMS_BOOL_CONTRACT \
  __CPROVER_requires(IMS_PRE(this)) \
  __CPROVER_assigns() \
  __CPROVER_ensures(TINS_BEQ(__CPROVER_return_value, this->size_ > 0))
/* size(n) can GROW the window: the caller must prove the new size stays inside the buffer */
#define IMS_SIZE_SET_CONTRACT \
  __CPROVER_requires(IMS_PRE(this)) \
  __CPROVER_requires(new_size <= 65535 && __CPROVER_r_ok(this->buffer_, new_size)) \
  __CPROVER_assigns(*this) \
  __CPROVER_ensures(this->size_ == new_size && this->buffer_ == __CPROVER_old(this->buffer_))

/* read(std::vector<uint8_t>&, count): value.assign(pointer(), pointer()+count); skip(count)  (src/memory_helpers.cpp) */
#define IMS_READ_VEC_CONTRACT \
  __CPROVER_requires(IMS_PRE(this)) \
  __CPROVER_assigns(*this) \
  __CPROVER_ensures(IMS_ADVANCED(this, count)) \
  __CPROVER_ensures(IMS_VALID(this))
#ifndef IMS_BODIES
/* the constructor is used with its own (extracted) body, not by contract: dfcc's havoc of a struct that holds a pointer
   followed by `assume(buffer_ == buffer)` loses the link between the cursor and the buffer's CONTENT (measured) */
//@ func include/tins/memory_helpers.h "InputMemoryStream::InputMemoryStream" match "const uint8_t* buffer, size_t total_sz"
sig: static void IMS_ctor(IMS* this, const uint8_t* buffer, size_t total_sz)
inits: lower
//@ endfunc
void IMS_read_vec(IMS* this, size_t count) IMS_READ_VEC_CONTRACT;
void IMS_skip(IMS* this, size_t size) IMS_SKIP_CONTRACT;
_Bool IMS_can_read(const IMS* this, size_t byte_count) IMS_CAN_READ_CONTRACT;
void IMS_read_obj(IMS* this, void* output, size_t n) IMS_READ_OBJ_CONTRACT;
void IMS_read_buf(IMS* this, void* output, size_t n) IMS_READ_OBJ_CONTRACT;
uint8_t IMS_read_uint8_t(IMS* this) IMS_READ_U8_CONTRACT;
uint16_t IMS_read_uint16_t(IMS* this) IMS_READ_N_CONTRACT(2);
uint32_t IMS_read_uint32_t(IMS* this) IMS_READ_N_CONTRACT(4);
uint64_t IMS_read_uint64_t(IMS* this) IMS_READ_N_CONTRACT(8);
uint16_t IMS_read_be_uint16_t(IMS* this) IMS_READ_BE16_CONTRACT;
uint32_t IMS_read_be_uint32_t(IMS* this) IMS_READ_N_CONTRACT(4);
uint64_t IMS_read_be_uint64_t(IMS* this) IMS_READ_N_CONTRACT(8);
uint16_t IMS_read_le_uint16_t(IMS* this) IMS_READ_N_CONTRACT(2);
uint32_t IMS_read_le_uint32_t(IMS* this) IMS_READ_N_CONTRACT(4);
uint64_t IMS_read_le_uint64_t(IMS* this) IMS_READ_N_CONTRACT(8);
const uint8_t* IMS_pointer(const IMS* this) IMS_POINTER_CONTRACT;
size_t IMS_size(const IMS* this) IMS_SIZE_CONTRACT;
void IMS_size_set(IMS* this, size_t new_size) IMS_SIZE_SET_CONTRACT;
_Bool IMS_bool(const IMS* this) IMS_BOOL_CONTRACT;
#endif
#define IMS_ALL_FUNCS IMS_skip IMS_can_read IMS_read_obj IMS_read_buf IMS_read_uint8_t IMS_read_uint16_t IMS_read_uint32_t IMS_read_uint64_t IMS_read_be_uint16_t IMS_read_be_uint32_t IMS_read_be_uint64_t IMS_read_le_uint16_t IMS_read_le_uint32_t IMS_read_le_uint64_t IMS_pointer IMS_size IMS_size_set IMS_bool
