/* REAL bodies of Memory::InputMemoryStream, extracted each run (no contracts): for plain-pipeline round-trip units in which
   parser and serializer are composed with the cursor code inlined. The same bodies are proved against their contracts in C01 cursor.* */
typedef struct { const uint8_t* buffer_; size_t size_; } IMS;
//@ func include/tins/memory_helpers.h "InputMemoryStream::InputMemoryStream" match "const uint8_t* buffer, size_t total_sz"
sig: static void IMS_ctor(IMS* this, const uint8_t* buffer, size_t total_sz)
class: InputMemoryStream include/tins/memory_helpers.h
overload: read/1=IMS_read_obj size/1=IMS_size_set
inits: lower
//@ endfunc
//@ func include/tins/memory_helpers.h "InputMemoryStream::skip" match "size_t size"
sig: static void IMS_skip(IMS* this, size_t size)
class: InputMemoryStream include/tins/memory_helpers.h
overload: read/1=IMS_read_obj size/1=IMS_size_set
//@ endfunc
//@ func include/tins/memory_helpers.h "InputMemoryStream::can_read"
sig: static _Bool IMS_can_read(const IMS* this, size_t byte_count)
class: InputMemoryStream include/tins/memory_helpers.h
overload: read/1=IMS_read_obj size/1=IMS_size_set
//@ endfunc
//@ func include/tins/memory_helpers.h "InputMemoryStream::read" match "void read(T& value)"
sig: static void IMS_read_obj(IMS* this, void* output, size_t n)
class: InputMemoryStream include/tins/memory_helpers.h
overload: read/1=IMS_read_obj size/1=IMS_size_set
rule: sizeof\(value\) ==> n
rule: read_value\(this->buffer_, value\) ==> memcpy(output, this->buffer_, n) /* read_value = std::memcpy(&value, buffer, sizeof(value)) */
//@ endfunc
//@ func include/tins/memory_helpers.h "InputMemoryStream::read" match "void* output_buffer, size_t output_buffer_size"
sig: static void IMS_read_buf(IMS* this, void* output, size_t n)
class: InputMemoryStream include/tins/memory_helpers.h
overload: read/1=IMS_read_obj size/1=IMS_size_set
rule: output_buffer_size ==> n
rule: read_data\(this->buffer_, \(uint8_t\*\)output_buffer, n\) ==> memcpy(output, this->buffer_, n) /* read_data = std::memcpy */
//@ endfunc
//@ func include/tins/memory_helpers.h "InputMemoryStream::read" match "T read()"
sig: static uint8_t IMS_read_uint8_t(IMS* this)
class: InputMemoryStream include/tins/memory_helpers.h
overload: read/1=IMS_read_obj size/1=IMS_size_set
rule: \bT output; ==> uint8_t output;
rule: IMS_read_obj\(this, output\) ==> IMS_read_obj(this, &output, sizeof(output))
//@ endfunc
//@ func include/tins/memory_helpers.h "InputMemoryStream::read" match "T read()"
sig: static uint16_t IMS_read_uint16_t(IMS* this)
class: InputMemoryStream include/tins/memory_helpers.h
overload: read/1=IMS_read_obj size/1=IMS_size_set
rule: \bT output; ==> uint16_t output;
rule: IMS_read_obj\(this, output\) ==> IMS_read_obj(this, &output, sizeof(output))
//@ endfunc
//@ func include/tins/memory_helpers.h "InputMemoryStream::read" match "T read()"
sig: static uint32_t IMS_read_uint32_t(IMS* this)
class: InputMemoryStream include/tins/memory_helpers.h
overload: read/1=IMS_read_obj size/1=IMS_size_set
rule: \bT output; ==> uint32_t output;
rule: IMS_read_obj\(this, output\) ==> IMS_read_obj(this, &output, sizeof(output))
//@ endfunc
//@ func include/tins/memory_helpers.h "InputMemoryStream::read" match "T read()"
sig: static uint64_t IMS_read_uint64_t(IMS* this)
class: InputMemoryStream include/tins/memory_helpers.h
overload: read/1=IMS_read_obj size/1=IMS_size_set
rule: \bT output; ==> uint64_t output;
rule: IMS_read_obj\(this, output\) ==> IMS_read_obj(this, &output, sizeof(output))
//@ endfunc
//@ func include/tins/memory_helpers.h "InputMemoryStream::read_be"
sig: static uint16_t IMS_read_be_uint16_t(IMS* this)
class: InputMemoryStream include/tins/memory_helpers.h
overload: read/1=IMS_read_obj size/1=IMS_size_set
rule: read<T>\(\) ==> IMS_read_uint16_t(this)
//@ endfunc
//@ func include/tins/memory_helpers.h "InputMemoryStream::read_be"
sig: static uint32_t IMS_read_be_uint32_t(IMS* this)
class: InputMemoryStream include/tins/memory_helpers.h
overload: read/1=IMS_read_obj size/1=IMS_size_set
rule: read<T>\(\) ==> IMS_read_uint32_t(this)
//@ endfunc
//@ func include/tins/memory_helpers.h "InputMemoryStream::read_be"
sig: static uint64_t IMS_read_be_uint64_t(IMS* this)
class: InputMemoryStream include/tins/memory_helpers.h
overload: read/1=IMS_read_obj size/1=IMS_size_set
rule: read<T>\(\) ==> IMS_read_uint64_t(this)
//@ endfunc
//@ func include/tins/memory_helpers.h "InputMemoryStream::read_le"
sig: static uint16_t IMS_read_le_uint16_t(IMS* this)
class: InputMemoryStream include/tins/memory_helpers.h
overload: read/1=IMS_read_obj size/1=IMS_size_set
rule: read<T>\(\) ==> IMS_read_uint16_t(this)
//@ endfunc
//@ func include/tins/memory_helpers.h "InputMemoryStream::read_le"
sig: static uint32_t IMS_read_le_uint32_t(IMS* this)
class: InputMemoryStream include/tins/memory_helpers.h
overload: read/1=IMS_read_obj size/1=IMS_size_set
rule: read<T>\(\) ==> IMS_read_uint32_t(this)
//@ endfunc
//@ func include/tins/memory_helpers.h "InputMemoryStream::read_le"
sig: static uint64_t IMS_read_le_uint64_t(IMS* this)
class: InputMemoryStream include/tins/memory_helpers.h
overload: read/1=IMS_read_obj size/1=IMS_size_set
rule: read<T>\(\) ==> IMS_read_uint64_t(this)
//@ endfunc
//@ func include/tins/memory_helpers.h "InputMemoryStream::pointer"
sig: static const uint8_t* IMS_pointer(const IMS* this)
class: InputMemoryStream include/tins/memory_helpers.h
overload: read/1=IMS_read_obj size/1=IMS_size_set
//@ endfunc
//@ func include/tins/memory_helpers.h "InputMemoryStream::size" match "size_t size() const"
sig: static size_t IMS_size(const IMS* this)
class: InputMemoryStream include/tins/memory_helpers.h
overload: read/1=IMS_read_obj size/1=IMS_size_set
//@ endfunc
//@ func include/tins/memory_helpers.h "InputMemoryStream::size" match "size_t new_size"
sig: static void IMS_size_set(IMS* this, size_t new_size)
class: InputMemoryStream include/tins/memory_helpers.h
overload: read/1=IMS_read_obj size/1=IMS_size_set
//@ endfunc
//@ func include/tins/memory_helpers.h "InputMemoryStream::operator bool"
sig: static _Bool IMS_bool(const IMS* this)
class: InputMemoryStream include/tins/memory_helpers.h
overload: read/1=IMS_read_obj size/1=IMS_size_set
//@ endfunc
