/* IPv4Address value class: one host-order word (include/tins/ip_address.h: uint32_t ip_addr_) */
typedef struct { uint32_t ip_addr_; } IPv4Address;
//@ func src/ip_address.cpp IPv4Address::IPv4Address match "uint32_t ip"
sig: static IPv4Address IPv4Address_from_u32(uint32_t ip)
pre: IPv4Address self_; IPv4Address* this = &self_;
inits: lower
post: return self_;
//@ endfunc
//@ func include/tins/ip_address.h IPv4Address::operator== 
sig: static _Bool IPv4Address_eq(const IPv4Address* this, const IPv4Address* rhs)
class: IPv4Address include/tins/ip_address.h
rule: rhs\.ip_addr_ ==> rhs->ip_addr_
//@ endfunc
/* IPv4Address::broadcast is IPv4Address("255.255.255.255") (inet_pton, libc: assumed) = host-order 0xffffffff */
static const IPv4Address IPv4Address_broadcast = { 0xffffffffu };
//@ func src/ip_address.cpp IPv4Address::is_broadcast
sig: static _Bool IPv4Address_is_broadcast(const IPv4Address* this)
rule: return\s*\*\s*this == broadcast ==> return IPv4Address_eq(this, &IPv4Address_broadcast)
//@ endfunc
