/* Internals::increment/decrement(IPv4Address&) and AddressRangeIterator<IPv4Address> / AddressRange<IPv4Address>::begin/end/is_iterable */
//@ func src/detail/address_helpers.cpp increment match "IPv4Address &addr"
sig: static _Bool Internals_increment(IPv4Address* addr)
rule: \(uint32_t\)\(addr\) ==> IPv4Address_to_u32(addr)
rule: \baddr = IPv4Address\( ==> *addr = IPv4Address_from_u32(
mutant: \+\+addr_int == 0xffffffff ==> ++addr_int == 0
//@ endfunc
//@ func src/detail/address_helpers.cpp decrement match "IPv4Address& addr"
sig: static _Bool Internals_decrement(IPv4Address* addr)
rule: \(uint32_t\)\(addr\) ==> IPv4Address_to_u32(addr)
rule: \baddr = IPv4Address\( ==> *addr = IPv4Address_from_u32(
//@ endfunc
typedef struct { IPv4Address address_; _Bool reached_end_; } IPv4It;
//@ func include/tins/address_range.h AddressRangeIterator::AddressRangeIterator match "(const value_type& address)"
sig: static IPv4It IPv4It_ctor(const IPv4Address* address)
pre: IPv4It self_; IPv4It* this = &self_;
inits: lower
rule: this->address_ = address; ==> this->address_ = *address;
post: return self_;
//@ endfunc
//@ func include/tins/address_range.h AddressRangeIterator::AddressRangeIterator match "(const value_type& address, end_iterator)"
sig: static IPv4It IPv4It_ctor_end(const IPv4Address* address)
members: address_ reached_end_
class: AddressRangeIterator include/tins/address_range.h
pre: IPv4It self_; IPv4It* this = &self_;
inits: lower
rule: this->address_ = address; ==> this->address_ = *address;
rule: Internals_increment\(this->address_\) ==> Internals_increment(&this->address_)
post: return self_;
//@ endfunc
//@ func include/tins/address_range.h AddressRangeIterator::operator==
sig: static _Bool IPv4It_eq(const IPv4It* this, const IPv4It* rhs)
members: address_ reached_end_
class: AddressRangeIterator include/tins/address_range.h
rule: rhs\.reached_end_ ==> rhs->reached_end_
rule: this->address_ == rhs\.address_ ==> IPv4Address_eq(&this->address_, &rhs->address_)
rule: this->reached_end_ == ==> !this->reached_end_ == !
//@ endfunc
//@ func include/tins/address_range.h AddressRangeIterator::operator++ match "operator++()"
sig: static void IPv4It_inc(IPv4It* this)
members: address_ reached_end_
class: AddressRangeIterator include/tins/address_range.h
rule: Internals_increment\(this->address_\) ==> Internals_increment(&this->address_)
rule: return\s*\*\s*this; ==> return;
//@ endfunc
//@ func include/tins/address_range.h AddressRange::begin
sig: static IPv4It IPv4Range_begin(const IPv4Range* this)
members: first_ last_ only_hosts_
class: AddressRange include/tins/address_range.h
rule: address_type addr = ==> IPv4Address addr =
rule: Internals_increment\(addr\) ==> Internals_increment(&addr)
rule: return const_iterator\(addr\); ==> return IPv4It_ctor(&addr);
//@ endfunc
//@ func include/tins/address_range.h AddressRange::end
sig: static IPv4It IPv4Range_end(const IPv4Range* this)
members: first_ last_ only_hosts_
class: AddressRange include/tins/address_range.h
rule: address_type addr = ==> IPv4Address addr =
rule: Internals_decrement\(addr\) ==> Internals_decrement(&addr)
rule: return const_iterator\(addr, typename const_iterator::end_iterator\(\)\); ==> return IPv4It_ctor_end(&addr);
//@ endfunc
//@ func include/tins/address_range.h AddressRange::is_iterable
sig: static _Bool IPv4Range_is_iterable(const IPv4Range* this)
members: first_ last_ only_hosts_
class: AddressRange include/tins/address_range.h
rule: address_type addr\(this->first_\); ==> IPv4Address addr = this->first_;
rule: Internals_increment\(addr\) ==> Internals_increment(&addr)
rule?: this->first_ < addr\b ==> IPv4Address_lt(&this->first_, &addr)
rule?: \baddr < this->last_ ==> IPv4Address_lt(&addr, &this->last_)
rule?: \baddr == this->last_ ==> IPv4Address_eq(&addr, &this->last_)
//@ endfunc
