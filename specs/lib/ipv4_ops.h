/* More of the IPv4Address value class (src/ip_address.cpp, include/tins/ip_address.h); needs lib/ipv4.h + lib/endian.h */
//@ func src/ip_address.cpp IPv4Address::operator\ uint32_t
sig: static uint32_t IPv4Address_to_u32(const IPv4Address* this)
class: IPv4Address include/tins/ip_address.h
//@ endfunc
//@ func include/tins/ip_address.h IPv4Address::operator< match "operator<(const IPv4Address& rhs)"
sig: static _Bool IPv4Address_lt(const IPv4Address* this, const IPv4Address* rhs)
class: IPv4Address include/tins/ip_address.h
rule: rhs\.ip_addr_ ==> rhs->ip_addr_
//@ endfunc
//@ func src/ip_address.cpp IPv4Address::operator& 
sig: static IPv4Address IPv4Address_and(const IPv4Address* this, const IPv4Address* mask)
class: IPv4Address include/tins/ip_address.h
rule: mask\.ip_addr_ ==> mask->ip_addr_
rule: return IPv4Address\( ==> return IPv4Address_from_u32(
//@ endfunc
//@ func src/ip_address.cpp IPv4Address::operator|
sig: static IPv4Address IPv4Address_or(const IPv4Address* this, const IPv4Address* mask)
class: IPv4Address include/tins/ip_address.h
rule: mask\.ip_addr_ ==> mask->ip_addr_
rule: return IPv4Address\( ==> return IPv4Address_from_u32(
//@ endfunc
//@ func src/ip_address.cpp IPv4Address::operator~
sig: static IPv4Address IPv4Address_not(const IPv4Address* this)
class: IPv4Address include/tins/ip_address.h
rule: return IPv4Address\( ==> return IPv4Address_from_u32(
//@ endfunc
//@ func src/ip_address.cpp IPv4Address::from_prefix_length
sig: static IPv4Address IPv4Address_from_prefix_length(uint32_t prefix_length)
rule: return IPv4Address\( ==> return IPv4Address_from_u32(
mutant: 32 - prefix_length ==> 31 - prefix_length
//@ endfunc
