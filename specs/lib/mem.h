/* R8: libc memory functions as contract stubs (libc is assumed, not verified). The precondition is the obligation. */
_Bool G_memcmp_equal;   /* ghost: "the two compared regions are bytewise equal" */
int tins_memcmp(const void* a, const void* b, size_t n)
__CPROVER_requires(__CPROVER_r_ok(a, n) && __CPROVER_r_ok(b, n))
__CPROVER_assigns()
__CPROVER_ensures((__CPROVER_return_value == 0) == G_memcmp_equal)
;
void* tins_memcpy(void* dst, const void* src, size_t n)
__CPROVER_requires(__CPROVER_w_ok(dst, n) && __CPROVER_r_ok(src, n))
__CPROVER_assigns(__CPROVER_object_whole(dst))
__CPROVER_ensures(__CPROVER_return_value == dst)
;
/* the same with the first two bytes of content (what the typed cursor reads need); kept apart because content clauses
   over a havocked object are expensive (DNS::compose_name: 53 s without, > 15 min with) */
void* tins_memcpy2(void* dst, const void* src, size_t n)
__CPROVER_requires(__CPROVER_w_ok(dst, n) && __CPROVER_r_ok(src, n))
__CPROVER_assigns(__CPROVER_object_whole(dst))
__CPROVER_ensures(__CPROVER_return_value == dst)
__CPROVER_ensures(n >= 1 ==> ((const uint8_t*)dst)[0] == ((const uint8_t*)src)[0])
__CPROVER_ensures(n >= 2 ==> ((const uint8_t*)dst)[1] == ((const uint8_t*)src)[1])
;
void* tins_memset(void* dst, int c, size_t n)
__CPROVER_requires(__CPROVER_w_ok(dst, n))
__CPROVER_assigns(__CPROVER_object_whole(dst))
__CPROVER_ensures(__CPROVER_return_value == dst)
;
