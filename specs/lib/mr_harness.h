/* common harness tail for matches_response units: MR_CLASS and MR_FUNC are defined by the unit */
void h_mr(void) {
  MR_CLASS* self; const uint8_t* ptr; uint32_t n;
  _Bool r = MR_FUNC(self, ptr, n);
  TINS_REACH("post");
  if (r) TINS_REACH("accepted");
  if (!r) TINS_REACH("rejected");
  if (G_inner_calls) TINS_REACH("delegated");
}
