/* Memory::OutputMemoryStream (include/tins/memory_helpers.h): the bounds-checked output cursor. Contracts ENFORCED on the
   extracted bodies in C02 cursor units and USED by every serializer unit. A failed size check throws serialization_error
   (skip throws malformed_packet): on normal return the cursor advanced by exactly n inside its window. */
typedef struct { uint8_t* buffer_; size_t size_; } OMS;
#ifndef TINS_PRE_R
#define TINS_PRE_R(p, n) __CPROVER_r_ok((p), (n))
#define TINS_PRE_W(p, n) __CPROVER_w_ok((p), (n))
#endif
#define OMS_PRE(s) (TINS_PRE_W((s), sizeof(OMS)) && (s)->size_ <= 65535 && TINS_PRE_W((s)->buffer_, (s)->size_))
#define OMS_VALID(s) (__CPROVER_w_ok((s), sizeof(OMS)) && (s)->size_ <= 65535 && __CPROVER_w_ok((s)->buffer_, (s)->size_))
#define OMS_ADVANCED(s, n) ((n) <= __CPROVER_old((s)->size_) && (s)->size_ == __CPROVER_old((s)->size_) - (n) && (s)->buffer_ == __CPROVER_old((s)->buffer_) + (n))
#define OMS_CTOR_CONTRACT \
  __CPROVER_requires(TINS_PRE_W(this, sizeof(OMS))) \
  __CPROVER_assigns(*this) \
  __CPROVER_ensures(this->buffer_ == buffer && this->size_ == total_sz)
/* write<T>(value), write(ptr,len), write(first,last), fill(n,v): n bytes at the cursor are written, nothing else */
/* serializer units define OMS_NOTHROW: every write must then be proved to fit, i.e. no serialization_error site is reachable */
#ifdef OMS_NOTHROW
#define OMS_ROOM(n) __CPROVER_requires((n) <= this->size_)
#else
#define OMS_ROOM(n)
#endif
#define OMS_WRITE_CONTRACT(n) \
  __CPROVER_requires(OMS_PRE(this)) \
  OMS_ROOM(n) \
  __CPROVER_assigns(*this; (n) <= this->size_: __CPROVER_object_upto(this->buffer_, (n))) \
  __CPROVER_ensures(OMS_ADVANCED(this, (n))) \
  __CPROVER_ensures(OMS_VALID(this))
/* content, for one arbitrary byte index G_oms_i (ghost-index idiom instead of a quantifier) */
size_t G_oms_i;
#define OMS_WRITE_OBJ_CONTRACT \
  __CPROVER_requires(n <= 65535 && TINS_PRE_R(value, n)) \
  OMS_WRITE_CONTRACT(n) \
  __CPROVER_ensures(G_oms_i < n ==> __CPROVER_old(this->buffer_)[G_oms_i] == ((const uint8_t*)value)[G_oms_i])
/* a [start,end) pair: checked at call sites as same object + readable; on an enforced body it is a fresh block of ghost length */
#ifndef TINS_RANGE_PRE
#define TINS_RANGE_PRE(a, b) (__CPROVER_same_object(a, b) && __CPROVER_POINTER_OFFSET(a) <= __CPROVER_POINTER_OFFSET(b) && RANGE_LEN(a, b) <= 65535 && __CPROVER_r_ok(a, RANGE_LEN(a, b)))
#endif
#define RANGE_LEN(a, b) ((size_t)(__CPROVER_POINTER_OFFSET(b) - __CPROVER_POINTER_OFFSET(a)))
#define OMS_WRITE_RANGE_CONTRACT \
  __CPROVER_requires(TINS_RANGE_PRE(start, end)) \
  OMS_WRITE_CONTRACT(RANGE_LEN(start, end)) \
  __CPROVER_ensures(G_oms_i < RANGE_LEN(start, end) ==> __CPROVER_old(this->buffer_)[G_oms_i] == start[G_oms_i])
#define OMS_SKIP_CONTRACT \
  __CPROVER_requires(OMS_PRE(this)) \
  OMS_ROOM(size) \
  __CPROVER_assigns(*this) \
  __CPROVER_ensures(OMS_ADVANCED(this, size)) \
  __CPROVER_ensures(OMS_VALID(this))
#define OMS_POINTER_CONTRACT \
  __CPROVER_requires(OMS_PRE(this)) \
  __CPROVER_assigns() \
  __CPROVER_ensures(__CPROVER_return_value == this->buffer_)
#define OMS_SIZE_CONTRACT \
  __CPROVER_requires(OMS_PRE(this)) \
  __CPROVER_assigns() \
  __CPROVER_ensures(__CPROVER_return_value == this->size_)
#ifndef OMS_BODIES
/* the constructor is used with its own (extracted) body, not by contract: dfcc's havoc of a struct that holds a pointer
   followed by `assume(buffer_ == buffer)` loses the link between the cursor and the buffer's CONTENT (measured) */
//@ func include/tins/memory_helpers.h "OutputMemoryStream::OutputMemoryStream" match "uint8_t* buffer, size_t total_sz"
sig: static void OMS_ctor(OMS* this, uint8_t* buffer, size_t total_sz)
inits: lower
//@ endfunc
void OMS_write_obj(OMS* this, const void* value, size_t n) OMS_WRITE_OBJ_CONTRACT;
void OMS_write_buf(OMS* this, const uint8_t* value, size_t n) OMS_WRITE_OBJ_CONTRACT;
void OMS_write_range(OMS* this, const uint8_t* start, const uint8_t* end) OMS_WRITE_RANGE_CONTRACT;
void OMS_write_uint8_t(OMS* this, uint8_t v) OMS_WRITE_CONTRACT(1);
void OMS_write_uint16_t(OMS* this, uint16_t v) OMS_WRITE_CONTRACT(2);
void OMS_write_uint32_t(OMS* this, uint32_t v) OMS_WRITE_CONTRACT(4);
void OMS_write_uint64_t(OMS* this, uint64_t v) OMS_WRITE_CONTRACT(8);
void OMS_write_be_uint16_t(OMS* this, uint16_t v) OMS_WRITE_CONTRACT(2);
void OMS_write_be_uint32_t(OMS* this, uint32_t v) OMS_WRITE_CONTRACT(4);
void OMS_write_be_uint64_t(OMS* this, uint64_t v) OMS_WRITE_CONTRACT(8);
void OMS_write_le_uint16_t(OMS* this, uint16_t v) OMS_WRITE_CONTRACT(2);
void OMS_write_le_uint32_t(OMS* this, uint32_t v) OMS_WRITE_CONTRACT(4);
void OMS_write_le_uint64_t(OMS* this, uint64_t v) OMS_WRITE_CONTRACT(8);
void OMS_fill(OMS* this, size_t size, uint8_t value) OMS_WRITE_CONTRACT(size);
void OMS_skip(OMS* this, size_t size) OMS_SKIP_CONTRACT;
uint8_t* OMS_pointer(OMS* this) OMS_POINTER_CONTRACT;
size_t OMS_size(const OMS* this) OMS_SIZE_CONTRACT;
#endif
/* write_be(v) / write_le(v) / write(v) with the width deduced from the argument (C++ template deduction) */
#define OMS_write_be(s, v) _Generic((v), uint8_t: OMS_write_uint8_t, uint16_t: OMS_write_be_uint16_t, uint32_t: OMS_write_be_uint32_t, uint64_t: OMS_write_be_uint64_t)((s), (v))
#define OMS_write_le(s, v) _Generic((v), uint8_t: OMS_write_uint8_t, uint16_t: OMS_write_le_uint16_t, uint32_t: OMS_write_le_uint32_t, uint64_t: OMS_write_le_uint64_t)((s), (v))
#define OMS_write_val(s, v) _Generic((v), uint8_t: OMS_write_uint8_t, uint16_t: OMS_write_uint16_t, uint32_t: OMS_write_uint32_t, uint64_t: OMS_write_uint64_t)((s), (v))
#define OMS_ALL_FUNCS OMS_write_obj OMS_write_buf OMS_write_range OMS_write_uint8_t OMS_write_uint16_t OMS_write_uint32_t OMS_write_uint64_t OMS_write_be_uint16_t OMS_write_be_uint32_t OMS_write_be_uint64_t OMS_write_le_uint16_t OMS_write_le_uint32_t OMS_write_le_uint64_t OMS_fill OMS_skip OMS_pointer OMS_size
