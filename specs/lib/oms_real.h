/* REAL bodies of Memory::OutputMemoryStream, extracted each run (no contracts); see ims_real.h. Proved against their contracts in C02 cursor.* */
typedef struct { uint8_t* buffer_; size_t size_; } OMS;
/* write(first, last) copies a SYMBOLIC number of octets: CBMC's built-in memcpy is imprecise there (measured: a source octet came
   back changed), so units that depend on the copied content define TINS_MEMCPY_RANGE as a byte loop with an unwinding bound */
#ifndef TINS_MEMCPY_RANGE
#define TINS_MEMCPY_RANGE memcpy
#endif
static void* tins_copy_bytes(void* d, const void* s, size_t n) { for (size_t i = 0; i < n; ++i) ((uint8_t*)d)[i] = ((const uint8_t*)s)[i]; return d; }
//@ func include/tins/memory_helpers.h "OutputMemoryStream::OutputMemoryStream" match "uint8_t* buffer, size_t total_sz"
sig: static void OMS_ctor(OMS* this, uint8_t* buffer, size_t total_sz)
class: OutputMemoryStream include/tins/memory_helpers.h
inits: lower
//@ endfunc
//@ func include/tins/memory_helpers.h "OutputMemoryStream::skip" match "size_t size"
sig: static void OMS_skip(OMS* this, size_t size)
class: OutputMemoryStream include/tins/memory_helpers.h
//@ endfunc
//@ func include/tins/memory_helpers.h "OutputMemoryStream::write" match "void write(const T& value)"
sig: static void OMS_write_obj(OMS* this, const void* value, size_t n)
class: OutputMemoryStream include/tins/memory_helpers.h
rule: sizeof\(value\) ==> n
rule: write_value\(this->buffer_, value\) ==> memcpy(this->buffer_, value, n) /* write_value = std::memcpy(buffer, &value, sizeof(value)) */
//@ endfunc
//@ func include/tins/memory_helpers.h "OutputMemoryStream::write" match "ForwardIterator start, ForwardIterator end"
sig: static void OMS_write_range(OMS* this, const uint8_t* start, const uint8_t* end)
class: OutputMemoryStream include/tins/memory_helpers.h
rule: std::distance\(start, end\) ==> (end - start)
rule: memcpy\(this->buffer_, &\*start, length\) ==> TINS_MEMCPY_RANGE(this->buffer_, start, length)
//@ endfunc
//@ func include/tins/memory_helpers.h "OutputMemoryStream::write" match "const uint8_t* ptr, size_t length"
sig: static void OMS_write_buf(OMS* this, const uint8_t* value, size_t n)
class: OutputMemoryStream include/tins/memory_helpers.h
rule: OMS_write\(this, ptr, ptr \+ length\) ==> OMS_write_range(this, value, value + n)
//@ endfunc
//@ func include/tins/memory_helpers.h "OutputMemoryStream::fill"
sig: static void OMS_fill(OMS* this, size_t size, uint8_t value)
class: OutputMemoryStream include/tins/memory_helpers.h
//@ endfunc
static void OMS_write_uint8_t(OMS* this, uint8_t v) { OMS_write_obj(this, &v, sizeof(v)); }   /* write<T>(const T&) instantiated */
static void OMS_write_uint16_t(OMS* this, uint16_t v) { OMS_write_obj(this, &v, sizeof(v)); }   /* write<T>(const T&) instantiated */
static void OMS_write_uint32_t(OMS* this, uint32_t v) { OMS_write_obj(this, &v, sizeof(v)); }   /* write<T>(const T&) instantiated */
static void OMS_write_uint64_t(OMS* this, uint64_t v) { OMS_write_obj(this, &v, sizeof(v)); }   /* write<T>(const T&) instantiated */
//@ func include/tins/memory_helpers.h "OutputMemoryStream::write_be"
sig: static void OMS_write_be_uint16_t(OMS* this, uint16_t value)
class: OutputMemoryStream include/tins/memory_helpers.h
rule: OMS_write\(this, (TINS_host_to_\w+\(value\))\) ==> { uint16_t tmp_ = \1; OMS_write_obj(this, &tmp_, sizeof(tmp_)); }
//@ endfunc
//@ func include/tins/memory_helpers.h "OutputMemoryStream::write_be"
sig: static void OMS_write_be_uint32_t(OMS* this, uint32_t value)
class: OutputMemoryStream include/tins/memory_helpers.h
rule: OMS_write\(this, (TINS_host_to_\w+\(value\))\) ==> { uint32_t tmp_ = \1; OMS_write_obj(this, &tmp_, sizeof(tmp_)); }
//@ endfunc
//@ func include/tins/memory_helpers.h "OutputMemoryStream::write_be"
sig: static void OMS_write_be_uint64_t(OMS* this, uint64_t value)
class: OutputMemoryStream include/tins/memory_helpers.h
rule: OMS_write\(this, (TINS_host_to_\w+\(value\))\) ==> { uint64_t tmp_ = \1; OMS_write_obj(this, &tmp_, sizeof(tmp_)); }
//@ endfunc
//@ func include/tins/memory_helpers.h "OutputMemoryStream::write_le"
sig: static void OMS_write_le_uint16_t(OMS* this, uint16_t value)
class: OutputMemoryStream include/tins/memory_helpers.h
rule: OMS_write\(this, (TINS_host_to_\w+\(value\))\) ==> { uint16_t tmp_ = \1; OMS_write_obj(this, &tmp_, sizeof(tmp_)); }
//@ endfunc
//@ func include/tins/memory_helpers.h "OutputMemoryStream::write_le"
sig: static void OMS_write_le_uint32_t(OMS* this, uint32_t value)
class: OutputMemoryStream include/tins/memory_helpers.h
rule: OMS_write\(this, (TINS_host_to_\w+\(value\))\) ==> { uint32_t tmp_ = \1; OMS_write_obj(this, &tmp_, sizeof(tmp_)); }
//@ endfunc
//@ func include/tins/memory_helpers.h "OutputMemoryStream::write_le"
sig: static void OMS_write_le_uint64_t(OMS* this, uint64_t value)
class: OutputMemoryStream include/tins/memory_helpers.h
rule: OMS_write\(this, (TINS_host_to_\w+\(value\))\) ==> { uint64_t tmp_ = \1; OMS_write_obj(this, &tmp_, sizeof(tmp_)); }
//@ endfunc
//@ func include/tins/memory_helpers.h "OutputMemoryStream::pointer"
sig: static uint8_t* OMS_pointer(OMS* this)
class: OutputMemoryStream include/tins/memory_helpers.h
//@ endfunc
//@ func include/tins/memory_helpers.h "OutputMemoryStream::size"
sig: static size_t OMS_size(const OMS* this)
class: OutputMemoryStream include/tins/memory_helpers.h
//@ endfunc
/* write_be(v) / write_le(v) / write(v) with the width deduced from the argument (C++ template deduction) */
#define OMS_write_be(s, v) _Generic((v), uint8_t: OMS_write_uint8_t, uint16_t: OMS_write_be_uint16_t, uint32_t: OMS_write_be_uint32_t, uint64_t: OMS_write_be_uint64_t)((s), (v))
#define OMS_write_le(s, v) _Generic((v), uint8_t: OMS_write_uint8_t, uint16_t: OMS_write_le_uint16_t, uint32_t: OMS_write_le_uint32_t, uint64_t: OMS_write_le_uint64_t)((s), (v))
#define OMS_write_val(s, v) _Generic((v), uint8_t: OMS_write_uint8_t, uint16_t: OMS_write_uint16_t, uint32_t: OMS_write_uint32_t, uint64_t: OMS_write_uint64_t)((s), (v))
#ifdef TINS_OMS_IPV4
//@ func src/memory_helpers.cpp "OutputMemoryStream::write" match "const IPv4Address& address"
sig: static void OMS_write_ipv4(OMS* this, const IPv4Address* address)
class: OutputMemoryStream include/tins/memory_helpers.h
rule: OMS_write\(this, \(\(uint32_t\)\(address\)\)\) ==> OMS_write_uint32_t(this, IPv4Address_to_u32(address))
//@ endfunc
#endif
