/* PDUOption<T, PDU> as the serializers see it (include/tins/pdu_option.h): code, advertised length (size_), stored data
   length (real_size_) and the data bytes. The small-buffer/heap union itself is under C12; here data_ptr() is a readable
   block of data_size() bytes (OPT_VALID). */
typedef struct { uint16_t option_; uint16_t size_; uint16_t real_size_; const uint8_t* data_; } OPT;
#define OPT_VALID(o) (__CPROVER_r_ok((o), sizeof(OPT)) && __CPROVER_r_ok((o)->data_, (o)->real_size_))
//@ func include/tins/pdu_option.h PDUOption::option match "option() const"
sig: static uint16_t OPT_option(const OPT* this)
members: option_ size_ real_size_
class: PDUOption include/tins/pdu_option.h
//@ endfunc
//@ func include/tins/pdu_option.h PDUOption::data_size
sig: static size_t OPT_data_size(const OPT* this)
members: option_ size_ real_size_
class: PDUOption include/tins/pdu_option.h
//@ endfunc
//@ func include/tins/pdu_option.h PDUOption::length_field
sig: static size_t OPT_length_field(const OPT* this)
members: option_ size_ real_size_
class: PDUOption include/tins/pdu_option.h
//@ endfunc
static const uint8_t* OPT_data_ptr(const OPT* this) { return this->data_; }   /* data_ptr(): small buffer or heap block (C12) */
