/* PDU base part of every layer object and the virtual calls a layer makes on its child (R11). */
typedef struct PDU_s { struct PDU_s* inner_pdu_; struct PDU_s* parent_pdu_; } PDU;
#define PDU_BASE PDU pdu_base_
#define TINS_INNER(self) ((self)->pdu_base_.inner_pdu_)
#define TINS_PARENT(self) ((self)->pdu_base_.parent_pdu_)
