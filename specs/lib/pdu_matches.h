/* R11: inner_pdu()->matches_response(ptr, n): uninterpreted; the interface promise is that the callee may read
   [ptr, ptr+n) -- so the caller must hand over a readable range. The result is the ghost G_inner_result. */
_Bool G_inner_result;
int G_inner_calls;
const uint8_t* G_inner_ptr;
uint32_t G_inner_sz;
_Bool PDU_v_matches_response(const PDU* self, const uint8_t* ptr, uint32_t total_sz)
__CPROVER_requires(self != NULL)
__CPROVER_requires(__CPROVER_r_ok(ptr, total_sz))
__CPROVER_assigns(G_inner_calls, G_inner_sz)
__CPROVER_ensures(TINS_BEQ(__CPROVER_return_value, G_inner_result))
__CPROVER_ensures(G_inner_calls == __CPROVER_old(G_inner_calls) + 1)
__CPROVER_ensures(G_inner_sz == total_sz)
;
