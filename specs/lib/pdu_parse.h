/* What a parser hands to the rest of the object graph (R6/R7 stubs). Each precondition is the obligation:
   the range given away must be readable -- i.e. lie inside the caller's buffer. */
PDU* new_RawPDU(const uint8_t* ptr, uint32_t n)
__CPROVER_requires(__CPROVER_r_ok(ptr, n))
__CPROVER_assigns()
__CPROVER_ensures(__CPROVER_is_fresh(__CPROVER_return_value, sizeof(PDU)))
;
void PDU_set_inner(PDU* self, PDU* child)
__CPROVER_requires(__CPROVER_w_ok(self, sizeof(PDU)))
__CPROVER_assigns(*self)
__CPROVER_ensures(self->inner_pdu_ == child)
;
/* std::vector<T>::reserve(n): n elements; an absurd count (length_error / bad_alloc) is not a libtins exception */
void tins_vec_reserve(size_t n)
__CPROVER_requires(n <= 65535)
__CPROVER_assigns()
;
/* option containers: push_back(option(type, start, end)) copies [start, end) */
void tins_add_option_range(int type, const uint8_t* start, const uint8_t* end)
__CPROVER_requires(__CPROVER_same_object(start, end) && __CPROVER_POINTER_OFFSET(start) <= __CPROVER_POINTER_OFFSET(end))
__CPROVER_requires(__CPROVER_r_ok(start, __CPROVER_POINTER_OFFSET(end) - __CPROVER_POINTER_OFFSET(start)))
__CPROVER_assigns()
;
void tins_add_option_sized(int type, size_t length, const uint8_t* data)
__CPROVER_requires(length <= 65535 && (length == 0 || __CPROVER_r_ok(data, length)))
__CPROVER_assigns()
;
void tins_add_option_empty(int type)
__CPROVER_requires(1)
__CPROVER_assigns()
;
/* Internals::pdu_from_flag(flag, buffer, size[, rawpdu_on_no_match]): constructs the next layer from [buffer, buffer+size) */
PDU* Internals_pdu_from_flag(int flag, const uint8_t* buffer, uint32_t size)
__CPROVER_requires(__CPROVER_r_ok(buffer, size))
__CPROVER_assigns()
__CPROVER_ensures(__CPROVER_return_value == NULL || __CPROVER_is_fresh(__CPROVER_return_value, sizeof(PDU)))
;
PDU* Internals_pdu_from_flag4(int flag, const uint8_t* buffer, uint32_t size, _Bool rawpdu_on_no_match)
__CPROVER_requires(__CPROVER_r_ok(buffer, size))
__CPROVER_assigns()
__CPROVER_ensures(__CPROVER_return_value == NULL || __CPROVER_is_fresh(__CPROVER_return_value, sizeof(PDU)))
;
#define PDU_PARSE_STUBS new_RawPDU PDU_set_inner tins_vec_reserve tins_add_option_range tins_add_option_sized tins_add_option_empty Internals_pdu_from_flag Internals_pdu_from_flag4
