/* Layer-object model for the plain-pipeline round-trip units: the PDU base part, with the child represented by its class
   tag and its serialized size (what a parent's serializer asks of it through the virtuals pdu_type() and size()).
   PDU::inner_pdu(PDU*) itself is proved in C12 (pdu.links); here it is the two assignments it performs. */
typedef struct PDU_s { struct PDU_s* inner_pdu_; struct PDU_s* parent_pdu_; int type_; uint32_t size_; const uint8_t* src_; uint8_t aux_; } PDU;
#define PDU_BASE PDU pdu_base_
#define TINS_INNER(self) ((self)->pdu_base_.inner_pdu_)
#define TINS_PARENT(self) ((self)->pdu_base_.parent_pdu_)
#define PDU_v_pdu_type(p) ((p)->type_)
#define PDU_v_size(p) ((p)->size_)
#define PDU_v_inner_pdu(p) ((p)->inner_pdu_)
static void PDU_set_inner(void* self, PDU* next) { PDU* b = (PDU*)self; b->inner_pdu_ = next; if (next) next->parent_pdu_ = b; }
/* "new X(ptr, n)": a child of class tag `type` built from the n bytes at ptr (its own parsing is that class's C01/C03 unit) */
static PDU* tins_new_child(int type, const uint8_t* ptr, uint32_t n) {
  __CPROVER_assert(__CPROVER_r_ok(ptr, n), "the range handed to the next layer is readable");
  PDU* p = malloc(sizeof(PDU)); __CPROVER_assume(p != NULL);
  p->inner_pdu_ = NULL; p->parent_pdu_ = NULL; p->type_ = type; p->size_ = n; p->src_ = ptr; return p;
}
