/* R6: ghost-index models of the STL containers DataTracker uses (hand-written, assumed to match libstdc++):
   - payload_type (std::vector<uint8_t>) as a ghost-stream chunk {len, gfirst}: size + the stream position its first byte
     came from; erase(begin, begin+d) is {len -= d, gfirst += d}; a moved-from vector is empty (libstdc++ behaviour);
   - std::map<uint32_t, payload_type> as a slot array with stable iterators (slot index), ++ = next larger key. */
#ifndef NMAX
#define NMAX 2
#endif
typedef struct { uint32_t len; uint32_t gfirst; } chunk;
typedef struct { uint32_t key; chunk val; _Bool used; } map_entry;
typedef struct { map_entry e[NMAX + 1]; } cmap;
typedef int map_iter;
#define MAP_END (NMAX + 1)
#define MAP_KEY(m, it) ((m)->e[it].key)
#define MAP_VAL(m, it) ((m)->e[it].val)
static map_iter map_find(const cmap* m, uint32_t k) { for (int i = 0; i < NMAX + 1; i++) if (m->e[i].used && m->e[i].key == k) return i; return MAP_END; }
static map_iter map_lower(const cmap* m, _Bool strict, uint32_t k) { map_iter best = MAP_END; for (int i = 0; i < NMAX + 1; i++) if (m->e[i].used && (strict ? m->e[i].key > k : 1) && (best == MAP_END || m->e[i].key < m->e[best].key)) best = i; return best; }
static map_iter map_begin(const cmap* m) { return map_lower(m, 0, 0); }
static map_iter map_next(const cmap* m, map_iter it) { __CPROVER_assert(it != MAP_END && m->e[it].used, "std::map: ++ on a valid iterator"); return map_lower(m, 1, m->e[it].key); }
static int map_size(const cmap* m) { int n = 0; for (int i = 0; i < NMAX + 1; i++) if (m->e[i].used) n++; return n; }
static void map_insert(cmap* m, uint32_t k, chunk v) { if (map_find(m, k) != MAP_END) return; /* insert() keeps an existing key */ map_iter slot = MAP_END; for (int i = 0; i < NMAX + 1; i++) if (!m->e[i].used) slot = i; __CPROVER_assume(slot != MAP_END); /* bound on simultaneously buffered chunks */ m->e[slot].key = k; m->e[slot].val = v; m->e[slot].used = 1; }
static map_iter map_erase(cmap* m, map_iter it) { __CPROVER_assert(it != MAP_END && m->e[it].used, "std::map::erase on a valid iterator"); map_iter nx = map_lower(m, 1, m->e[it].key); m->e[it].used = 0; return nx; }
static void chunk_erase_front(chunk* c, uint32_t d) { __CPROVER_assert(d <= c->len, "std::vector::erase: range within the vector"); c->len -= d; c->gfirst += d; }
static chunk chunk_move(chunk* c) { chunk r = *c; c->len = 0; return r; }   /* std::move into a by-value parameter / assignment: source left empty */
/* ghost: the delivered stream (payload_.insert(payload_.end(), ...)) */
uint32_t g_delivered_end; _Bool g_contig = 1;
static void payload_append(chunk c) { if (c.len) { if (c.gfirst != g_delivered_end) g_contig = 0; g_delivered_end += c.len; } }
