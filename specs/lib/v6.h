/* IPv6Address: sixteen bytes; operator== is std::equal over them (libstdc++ assumed); modelled loop-free */
#define V6_eq4(a, b, i) ((a)[i]==(b)[i] && (a)[i+1]==(b)[i+1] && (a)[i+2]==(b)[i+2] && (a)[i+3]==(b)[i+3])
#define V6_eq(a, b) (V6_eq4(a,b,0) && V6_eq4(a,b,4) && V6_eq4(a,b,8) && V6_eq4(a,b,12))
/* IPv6Address::is_multicast(): multicast_range = ff00::/8 (src/ipv6_address.cpp), i.e. the first octet is 0xff.  Assumed model of AddressRange::contains. */
#define V6_is_multicast(a) ((a)[0] == 0xff)
