/* IPv6Address: sixteen bytes; operator== is std::equal over them (libstdc++ assumed); modelled loop-free */
#define V6_eq4(a, b, i) ((a)[i]==(b)[i] && (a)[i+1]==(b)[i+1] && (a)[i+2]==(b)[i+2] && (a)[i+3]==(b)[i+3])
#define V6_eq(a, b) (V6_eq4(a,b,0) && V6_eq4(a,b,4) && V6_eq4(a,b,8) && V6_eq4(a,b,12))
