/* R5: std::vector<uint8_t> / std::string used as a byte buffer: a view {data,size}. Capacity, reallocation and iterator
   invalidation are not modelled. */
typedef struct { uint8_t* data; size_t size; } VEC;
#define VEC_PRE(v) ((v).size <= 65535 && TINS_PRE_R((v).data, (v).size))
#define VEC_VALID(v) ((v).size <= 65535 && __CPROVER_r_ok((v).data, (v).size))
