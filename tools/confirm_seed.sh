#!/bin/bash
# confirm_seed.sh <property> <worktree> <slot>
# Confirms a sub-agent's seeded change in its scratch worktree: (1) builds and passes ctest with the change,
# (2) demo fails with the change, (3) demo passes without it. Then stores it under /verif/seeded/<property>-<slot>/.
set -u
P=$1; WT=$2; SLOT=$3
cd "$WT" || exit 2
git diff -- src include ':!include/tins/config.h' > /tmp/confirm_$P.diff
[ -s /tmp/confirm_$P.diff ] || { echo "no change applied"; exit 2; }
B() { cmake --build _build -j16 >/dev/null 2>&1 && cmake --build _build --target tests -j16 >/dev/null 2>&1; }
D() { g++ -std=c++11 -I"$WT/include" demo.cpp -L"$WT/_build/lib" -ltins -lpthread -lcrypto -o demo_bin 2>/tmp/confirm_$P.err && LD_LIBRARY_PATH="$WT/_build/lib" timeout 120 ./demo_bin >/tmp/confirm_$P.out 2>&1; }
B || { echo "build with change failed"; exit 2; }
T=$(ctest --test-dir _build -j8 --timeout 900 2>&1 | grep -E "tests passed|tests failed")
echo "with change: $T"
D; RC_WITH=$?
echo "demo with change: rc=$RC_WITH"; tail -3 /tmp/confirm_$P.out
git apply -R /tmp/confirm_$P.diff || exit 2
B; D; RC_WITHOUT=$?
echo "demo without change: rc=$RC_WITHOUT"; tail -2 /tmp/confirm_$P.out
git apply /tmp/confirm_$P.diff || exit 2
B
OUT=/verif/seeded/$P-$SLOT
case "$T" in *"100% tests passed"*) ;; *) echo "REJECT: test suite does not pass with the change"; exit 1;; esac
[ $RC_WITH -ne 0 ] && [ $RC_WITHOUT -eq 0 ] || { echo "REJECT: demo does not discriminate"; exit 1; }
mkdir -p $OUT && cp /tmp/confirm_$P.diff $OUT/patch.diff && cp demo.cpp $OUT/demo.cpp && cp NOTES.md $OUT/NOTES.md 2>/dev/null
echo "CONFIRMED -> $OUT"
