#!/usr/bin/env python3
"""Writes /verif/MANIFEST.json from specs/properties_meta.json (claimed checks) and the not-applicable table below."""
import json, os
V = '/verif'
meta = json.load(open(os.path.join(V, 'specs/properties_meta.json')))
NA = {
 'C17': 'Behaviour lives in libpcap (file I/O, pcap_loop, pcap_offline_filter/BPF); no libtins function to put under contract, and CBMC cannot see into libpcap. The libtins part (per-frame handlers read inside caplen, only malformed_packet is swallowed) belongs to C01.',
}
PENDING = 'no unit built yet for this property in this session (contract-based check planned in DESIGN.md; not claimed until it runs)'
ids = ['C%02d' % i for i in range(1, 20)]
checks = []
for pid in ids:
    m = meta.get(pid)
    if not m or not m.get('claimed', True):
        continue
    checks.append({
        'property_id': pid,
        'quick_cmd': './check %s --tier quick' % pid,
        'thorough_cmd': './check %s --tier thorough' % pid,
        'evidence_file': '/verif/evidence/%s.json' % pid,
        'replay_cmd_template': './check %s --replay {path}' % pid,
        'engine': 'vf',
        'level_claimed': {'category': m.get('level', 'proof'), 'text': m['text'], 'design_ref': m.get('design_ref', 'DESIGN.md section 4, ' + pid)},
        'level_note': m['note'],
        'technique': m.get('technique', 'CBMC code contracts (goto-instrument --dfcc) on C extracted from /repo each run'),
    })
na = []
for pid in ids:
    if pid in [c['property_id'] for c in checks]:
        continue
    na.append({'property_id': pid, 'reason': NA.get(pid, meta.get(pid, {}).get('na_reason', PENDING))})
man = {
 'version': 1,
 'setup_cmd': 'python3 -m compileall -q vf tools specs >/dev/null && cbmc --version && goto-instrument --version && goto-cc --version',
 'hooks': {'guard': 'TINS_VERIF', 'enable': 'no hooks are compiled into libtins: contracts live in /verif/specs and are spliced into C text extracted from /repo\'s working tree on every run',
           'baseline_off_cmd': 'cmake --build /repo/_build -j16 && cmake --build /repo/_build --target tests -j16 && ctest --test-dir /repo/_build -j8 --timeout 900',
           'source_commits': [], 'add_only': True},
 'engines': [{'name': 'vf', 'path': '/verif/check', 'serves_properties': [c['property_id'] for c in checks],
              'kind_free_text': 'cxx2c rule-based extraction of the C++ functions a property depends on + CBMC 6.11 code contracts (goto-cc, goto-instrument --dfcc --enforce-contract/--replace-call-with-contract/--apply-loop-contracts, cbmc/MiniSat); plain CBMC harnesses for loop-free generated units; native ASan replay of counterexamples'}],
 'checks': checks,
 'not_applicable': na,
 'notes': 'Exit codes of ./check: 0 = every obligation discharged (known findings aside, printed as KNOWN-FINDING); 1 = VIOLATION line(s); 2 = undecided (timeout, extraction rule did not fire, vacuity guard, invariant no longer inductive). Genuine defects repaired in /repo are listed under "fixed" in /verif/known_findings.json; recorded ones under "known".',
}
json.dump(man, open(os.path.join(V, 'MANIFEST.json'), 'w'), indent=1)
print('checks:', [c['property_id'] for c in checks], 'not_applicable:', [n['property_id'] for n in na])
