#!/bin/bash
# run_all.sh [tier]  -- every claimed check, sequentially, on /repo's working tree; prints one line per property
T=${1:-quick}
cd /verif
for p in $(python3 -c "import json; print(' '.join(x['property_id'] for x in json.load(open('MANIFEST.json'))['checks']))"); do
  s=$(date +%s); out=$(./check $p --tier $T 2>&1); rc=$?
  echo "$p rc=$rc $(( $(date +%s) - s ))s $(echo "$out" | tail -1)"
  echo "$out" | grep -E "^(VIOLATION|UNDECIDED|KNOWN-FINDING)" | cut -c1-220 | head -20
done
