#!/usr/bin/env python3
"""try_seed.py <seed dir name> [property ...]  -- apply /verif/seeded/<name>/patch.diff to /repo, run ./check for the
property (default: the one in the name), record the outcome in meta.json, always revert /repo."""
import json, os, subprocess, sys, time
name = sys.argv[1]
d = os.path.join('/verif/seeded', name)
props = sys.argv[2:] or [name.split('-')[0]]
meta_p = os.path.join(d, 'meta.json')
meta = json.load(open(meta_p)) if os.path.exists(meta_p) else {}
assert subprocess.run(['git', '-C', '/repo', 'status', '--porcelain', '--untracked-files=no'], capture_output=True, text=True).stdout.strip() == '', '/repo not clean'
r = subprocess.run(['git', '-C', '/repo', 'apply', os.path.join(d, 'patch.diff')])
assert r.returncode == 0, 'patch does not apply'
try:
    for p in props:
        t0 = time.time()
        r = subprocess.run(['./check', p], cwd='/verif', capture_output=True, text=True, env=dict(os.environ, VERIF_NO_EVIDENCE='1'))
        lines = [l for l in r.stdout.split('\n') if l.startswith(('VIOLATION', 'UNDECIDED', 'KNOWN')) or 'failed obligation' in l]
        lines = [l for l in lines if not l.startswith('KNOWN')] + [l for l in lines if l.startswith('KNOWN')]
        meta.setdefault('check_results', {})[p] = {'exit': r.returncode, 'caught': r.returncode == 1, 'seconds': round(time.time() - t0, 1),
                                                  'lines': [l[:400] for l in lines[:12]]}
        print(p, 'exit', r.returncode, 'CAUGHT' if r.returncode == 1 else 'MISSED')
        for l in lines[:8]:
            print('   ', l[:300])
finally:
    subprocess.run(['git', '-C', '/repo', 'checkout', '--', '.'])
meta.setdefault('property', name.split('-')[0])
json.dump(meta, open(meta_p, 'w'), indent=1)
