"""goto-cc -> goto-instrument --dfcc -> cbmc, result parsing and obligation classification (DESIGN 3.3-3.5)."""
import json
import os
import re
import resource
import subprocess
import time
from . import cxx, unit as unitmod

VERIF = os.path.dirname(os.path.dirname(os.path.abspath(__file__)))
PRELUDE = os.path.join(VERIF, 'prelude')
MEM_LIMIT = 14 * 1024 ** 3

ADVISORY_RX = re.compile(r'pointer (relation|arithmetic): pointer outside object bounds')
STRUCTURE_RX = re.compile(r'loop_invariant_base|loop_invariant_step|loop_decreases|loop_step_unwinding|loop_assigns')


def _limits():
    resource.setrlimit(resource.RLIMIT_AS, (MEM_LIMIT, MEM_LIMIT))


def _run(cmd, timeout, cwd, log):
    t0 = time.time()
    try:
        r = subprocess.run(cmd, cwd=cwd, capture_output=True, text=True, timeout=timeout, preexec_fn=_limits)
        rc, out, err = r.returncode, r.stdout, r.stderr
    except subprocess.TimeoutExpired as e:
        rc, out, err = -9, (e.stdout or b'').decode('utf8', 'replace') if isinstance(e.stdout, bytes) else (e.stdout or ''), 'TIMEOUT after %ds' % timeout
    dt = time.time() - t0
    log.append({'cmd': ' '.join(cmd), 'rc': rc, 'seconds': round(dt, 2)})
    return rc, out, err, dt


def _race(cmd, timeout, cwd, log):
    """Portfolio: the same query on MiniSat (CBMC's default) and CaDiCaL; the first back end to answer wins.
    (Measured: PPI ctor 7 s on CaDiCaL vs > 300 s on MiniSat; DNS::compose_name 77 s on MiniSat vs > 300 s on CaDiCaL.)"""
    import tempfile
    t0 = time.time()
    procs = []
    for extra in ([], ['--sat-solver', 'cadical']):
        fo = tempfile.TemporaryFile(mode='w+')
        fe = tempfile.TemporaryFile(mode='w+')
        p_ = subprocess.Popen(cmd + extra, cwd=cwd, stdout=fo, stderr=fe, preexec_fn=_limits)
        procs.append((p_, fo, fe, 'cadical' if extra else 'minisat'))
    winner = None
    while time.time() - t0 < timeout:
        for p_, fo, fe, nm in procs:
            rc = p_.poll()
            if rc is not None and rc in (0, 10):
                winner = (p_, fo, fe, nm)
                break
        if winner:
            break
        if all(p_.poll() is not None for p_, _, _, _ in procs):
            winner = procs[0]
            break
        time.sleep(0.05)
    for p_, fo, fe, nm in procs:
        if p_.poll() is None:
            p_.kill()
            p_.wait()
    dt = time.time() - t0
    if winner is None:
        log.append({'cmd': ' '.join(cmd) + ' [minisat|cadical]', 'rc': -9, 'seconds': round(dt, 2)})
        return -9, '', 'TIMEOUT after %ds' % timeout, dt
    p_, fo, fe, nm = winner
    fo.seek(0)
    fe.seek(0)
    out, err = fo.read(), fe.read()
    log.append({'cmd': ' '.join(cmd) + ' [won by %s]' % nm, 'rc': p_.returncode, 'seconds': round(dt, 2)})
    return p_.returncode, out, err, dt


def obligation_class(prop_id, desc):
    p = prop_id
    if desc.startswith('REACH:'):
        return 'reach'
    if ADVISORY_RX.search(desc):
        return 'advisory'
    for key, cls in (('loop_invariant_base', 'loop-invariant-base'), ('loop_invariant_step', 'loop-invariant-step'),
                     ('loop_decreases', 'loop-decreases'), ('loop_step_unwinding', 'loop-structure'),
                     ('postcondition', 'postcondition'), ('precondition_instance', 'library-precondition'),
                     ('precondition', 'callee-precondition'), ('assertion', 'assertion'), ('assigns', 'frame'),
                     ('frees', 'frees'), ('pointer_dereference', 'deref-in-bounds'), ('array_bounds', 'array-bounds'),
                     ('bounds', 'array-bounds'), ('pointer_primitives', 'pointer-primitive'), ('pointer_arithmetic', 'pointer-arith'),
                     ('pointer', 'pointer'), ('overflow', 'overflow'), ('division-by-zero', 'div-by-zero'),
                     ('undefined-shift', 'shift'), ('memory-leak', 'leak'), ('unwind', 'unwinding'),
                     ('enum-range', 'enum-range'), ('NaN', 'nan'), ('conversion', 'conversion')):
        if '.' + key in p or p.startswith(key):
            return cls
    return 'other'


def norm_text(s):
    return re.sub(r'\s+', ' ', s).strip()


class UnitResult:
    def __init__(self, name):
        self.name = name
        self.status = 'undecided'     # ok | fail | undecided
        self.reason = ''
        self.obligations = []         # dicts
        self.failed = []              # property-carrying failures
        self.structure_failed = []
        self.advisory = 0
        self.reach = {}
        self.vacuous = False
        self.cmds = []
        self.seconds = 0.0
        self.solver_seconds = 0.0
        self.unit = None
        self.workdir = None
        self.binary = None

    def counts(self):
        obs = [o for o in self.obligations if o['class'] not in ('reach', 'advisory')]
        return len(obs), sum(1 for o in obs if o['status'] == 'SUCCESS')


def checks_flags(u):
    flags = ['--bounds-check', '--pointer-check', '--div-by-zero-check', '--signed-overflow-check',
             '--undefined-shift-check', '--pointer-primitive-check', '--no-malloc-may-fail',
             '--pointer-overflow-check']
    extra = u.get('cbmc', '').split()
    if '--minisat' in extra:           # a unit may ask for the default MiniSat back end
        extra.remove('--minisat')
        flags = [f for f in flags if f not in ('--sat-solver', 'cadical')]
    if '--no-pointer-overflow-check' in extra:
        extra.remove('--no-pointer-overflow-check')
        flags.remove('--pointer-overflow-check')
    return flags + extra


def build_binary(u, workdir, log, timeout):
    """unit.c -> a.gb [-> b.gb]; returns path of the binary to analyse or raises ExtractError."""
    cfile = os.path.join(workdir, 'unit.c')
    with open(cfile, 'w') as f:
        f.write(u.c_text)
    entry = u.get('entry', 'harness')
    defs = ['-DTINS_VERIF_CBMC']
    if u.get('allow-exc'):
        cond = ' || '.join('(e) == EXC_%s' % k for k in u.get('allow-exc').split() if k != 'none') or '0'     # `allow-exc: none`: every throw is an obligation failure
        defs.append('-DTINS_EXC_ALLOWED(e)=(%s)' % cond)
    for d in u.getlist('define'):
        defs.append('-D' + d)
    a = os.path.join(workdir, 'a.gb')
    rc, out, err, _ = _run(['goto-cc', '-I', PRELUDE, '-I', unitmod.SPECS] + defs + ['--function', entry, cfile, '-o', a], timeout, workdir, log)
    if rc != 0:
        raise cxx.ExtractError('goto-cc failed: ' + (err or out)[-1500:])
    if u.get('pipeline', 'dfcc') == 'plain':
        return a
    b = os.path.join(workdir, 'b.gb')
    cmd = ['goto-instrument', '--dfcc', entry]
    for f_ in u.getlist('enforce'):
        cmd += ['--enforce-contract', f_]
    for f_ in u.getlist('replace'):
        # a contract-bearing declaration that the extracted code never calls is not in the binary: skip it
        if len(re.findall(r'\b%s\s*\(' % re.escape(f_), u.c_text)) >= 2:
            cmd += ['--replace-call-with-contract', f_]
    if u.get('loop-contracts', 'yes') != 'no':
        cmd += ['--apply-loop-contracts']
    cmd += u.get('instrument', '').split()
    cmd += [a, b]
    rc, out, err, _ = _run(cmd, timeout, workdir, log)
    if rc != 0:
        msg = (err or out)
        d = re.search(r'<< EXTRA DIAGNOSTICS >>(.*?)<< END EXTRA DIAGNOSTICS >>', msg, re.S)
        raise cxx.ExtractError('goto-instrument failed: ' + (d.group(1).strip() if d else msg[-800:]))
    return b


def parse_json(out):
    try:
        data = json.loads(out)
    except ValueError:
        # truncated output (timeout): try to salvage nothing
        return None, None, []
    results, verdict, msgs = None, None, []
    for item in data:
        if 'result' in item:
            results = item['result']
        if 'cProverStatus' in item:
            verdict = item['cProverStatus']
        if 'messageText' in item:
            msgs.append(item['messageText'])
    return results, verdict, msgs


def run_unit(path, scratch, mutate=None, extra_name=''):
    t0 = time.time()
    name = os.path.splitext(os.path.basename(path))[0] + extra_name
    res = UnitResult(name)
    workdir = os.path.join(scratch, re.sub(r'\W', '_', name))
    os.makedirs(workdir, exist_ok=True)
    res.workdir = workdir
    try:
        u = unitmod.build(path, mutate)
        res.unit = u
        res.name = u.get('unit', name) + extra_name
        timeout = int(os.environ.get('VERIF_TIMEOUT') or u.get('timeout', '300'))
        binary = build_binary(u, workdir, res.cmds, timeout)
        res.binary = binary
    except cxx.ExtractError as e:
        res.reason = 'extraction/build: ' + str(e)
        res.seconds = time.time() - t0
        return res
    objbits = int(u.get('objbits', '0') or 0)
    base = ['cbmc', binary, '--json-ui'] + checks_flags(u)
    # list the properties first: the REACH guards (which must fail) and the advisory pointer-arithmetic checks are run
    # apart from the obligations, so that their failures do not leave obligations UNKNOWN and both runs go in parallel
    plist = []
    outp = '[]'
    if u.get('pipeline', 'dfcc') != 'plain':     # loop-free plain harnesses are decided in one run
        rcp, outp, errp, dtp = _run(base + ['--show-properties'], timeout, workdir, res.cmds)
    try:
        for item in json.loads(outp):
            if 'properties' in item:
                plist = item['properties']
    except ValueError:
        plist = []
    side = [p_['name'] for p_ in plist if p_.get('description', '').startswith('REACH:') or ADVISORY_RX.search(p_.get('description', ''))]
    main = [p_['name'] for p_ in plist if p_['name'] not in set(side)]

    def run_group(names):
        ob = objbits
        while True:
            cmd_ = list(base)
            if ob:
                cmd_ += ['--object-bits', str(ob)]
            for n_ in names:
                cmd_ += ['--property', n_]
            rc_, out_, err_, dt_ = (_run if u.get('pipeline', 'dfcc') == 'plain' or '--sat-solver' in cmd_ or '--cvc5' in cmd_ or '--z3' in cmd_ else _race)(cmd_, timeout, workdir, res.cmds)
            if 'too many addressed objects' in out_ and (ob or 8) < 12:
                ob = (ob or 8) + 1      # default is 8; raise only when CBMC asks for it (cost grows steeply with it)
                continue
            return rc_, out_, err_, dt_, ob, cmd_
    if plist and side and main:
        import concurrent.futures as _cf
        with _cf.ThreadPoolExecutor(max_workers=2) as ex_:
            fa = ex_.submit(run_group, main)
            fb = ex_.submit(run_group, side)
            rc, out, err, dt, objbits, cmd = fa.result()
            rcb, outb, errb, dtb, _, _ = fb.result()
        res.solver_seconds += dt + dtb
        if rcb == -9:
            rc = -9
        else:
            ra, va, ma = parse_json(out)
            rb, vb, mb = parse_json(outb)
            if ra is not None and rb is not None:
                out = json.dumps([{'result': ra + rb}, {'cProverStatus': va}] + [{'messageText': x} for x in ma + mb])
            elif rb is None:
                out = outb
    else:
        rc, out, err, dt, objbits, cmd = run_group([])
        res.solver_seconds += dt
    if objbits:
        u.hdr['objbits'] = str(objbits)
    cmd = [c for c in cmd]
    # strip the --property selection so that follow-up runs can add their own
    cmd_clean = []
    skip = False
    for c in cmd:
        if skip:
            skip = False
            continue
        if c == '--property':
            skip = True
            continue
        cmd_clean.append(c)
    cmd = cmd_clean
    with open(os.path.join(workdir, 'cbmc.json'), 'w') as f:
        f.write(out)
    if rc == -9:
        res.reason = 'cbmc timeout after %ds' % timeout
        res.seconds = time.time() - t0
        return res
    results, verdict, msgs = parse_json(out)
    if results is None:
        res.reason = 'cbmc gave no result list (rc=%d): %s' % (rc, ' | '.join(msgs[-3:]) + (err or '')[-300:])
        res.seconds = time.time() - t0
        return res
    if any('ignoring' in m and ('forall' in m or 'exists' in m or 'quantif' in m) for m in msgs):
        res.reason = 'solver ignored a quantifier'
        res.seconds = time.time() - t0
        return res
    # CBMC leaves properties UNKNOWN when other properties of the same run fail (the REACH guards always do):
    # decide those in follow-up runs restricted to them.
    for _round in range(3):
        unk = [r for r in results if r.get('status') == 'UNKNOWN']
        if not unk:
            break
        cmd2 = list(cmd)
        for r in unk:
            cmd2 += ['--property', r['property']]
        rc2, out2, err2, dt2 = (_run if u.get('pipeline', 'dfcc') == 'plain' else _race)(cmd2, timeout, workdir, res.cmds)
        res.solver_seconds += dt2
        if rc2 == -9:
            res.reason = 'cbmc timeout after %ds (follow-up run for UNKNOWN properties)' % timeout
            res.seconds = time.time() - t0
            return res
        results2, _, _ = parse_json(out2)
        if not results2:
            break
        upd = dict((r['property'], r) for r in results2)
        progressed = False
        for i, r in enumerate(results):
            if r.get('status') == 'UNKNOWN' and r['property'] in upd and upd[r['property']].get('status') != 'UNKNOWN':
                results[i] = upd[r['property']]
                progressed = True
        if not progressed:
            break
    clines = u.c_text.split('\n')
    for r in results:
        pid = r.get('property', '')
        desc = r.get('description', '')
        loc = r.get('sourceLocation', {})
        cls = obligation_class(pid, desc)
        if u.get('advisory') and re.search(u.get('advisory'), desc):
            cls = 'advisory'      # waived for this unit with a stated reason (#! advisory-reason)
        line = int(loc.get('line', 0) or 0)
        text = ''
        if loc.get('file', '').endswith('unit.c') and 0 < line <= len(clines):
            text = norm_text(clines[line - 1])
        if cls == 'assertion':
            text = norm_text(desc)      # user assertions are named by their message, which the spec controls
        o = {'id': pid, 'class': cls, 'status': r.get('status'), 'description': desc, 'line': line,
             'function': loc.get('function', ''), 'text': text,
             'name': '%s/%s/%s' % (res.name, cls, text or norm_text(desc))}
        res.obligations.append(o)
    unreach_ok = set(u.getlist('unreach'))
    unknown = []
    for o in res.obligations:
        if o['class'] == 'reach':
            tag = o['description'][6:]
            reached = o['status'] == 'FAILURE'
            res.reach[tag] = res.reach.get(tag, False) or reached
        elif o['class'] == 'advisory':
            if o['status'] != 'SUCCESS':
                res.advisory += 1
        elif o['status'] == 'FAILURE':
            (res.structure_failed if STRUCTURE_RX.search(o['id']) else res.failed).append(o)
        elif o['status'] != 'SUCCESS':
            unknown.append(o)
    dead = [t for t, ok in res.reach.items() if not ok and t not in unreach_ok]
    n, ok = res.counts()
    res.seconds = time.time() - t0
    if unknown and not res.failed:
        res.reason = 'obligation %s has status %s' % (unknown[0]['id'], unknown[0]['status'])
        return res
    if n == 0:
        res.reason = 'zero obligations generated'
    elif not res.reach:
        res.reason = 'no REACH guard in unit'
    elif res.failed:
        res.status = 'fail'          # a counterexample to a property-carrying obligation exists, whatever else is unreachable
    elif dead:
        res.vacuous = True
        res.reason = 'vacuity guard: REACH tags not reachable: ' + ' '.join(sorted(dead))
    elif res.structure_failed:
        res.reason = 'proof-structure obligations fail (%s) with no property-carrying failure: invariant no longer fits the code' % ', '.join('%s [%s]' % (o['id'], o['text'][:90]) for o in res.structure_failed[:4])
    else:
        res.status = 'ok'
    return res


def trace_for(res, obligation, timeout=300):
    """Re-run cbmc for one failed obligation with --trace; return (inputs dict, raw text excerpt)."""
    u = res.unit
    cmd = ['cbmc', res.binary, '--json-ui', '--trace', '--property', obligation['id']] + checks_flags(u)
    if u.get('objbits'):
        cmd += ['--object-bits', u.get('objbits')]
    log = []
    rc, out, err, dt = _run(cmd, timeout, res.workdir, log)
    inputs = {}
    order = []
    excerpt = ''
    try:
        data = json.loads(out)
    except ValueError:
        return inputs, 'trace run failed (rc=%d) %s' % (rc, err[-300:])
    entry = u.get('entry', 'harness')
    for item in data:
        for r in item.get('result', []) if isinstance(item, dict) else []:
            if r.get('property') != obligation['id'] or 'trace' not in r:
                continue
            for st in r['trace']:
                if st.get('stepType') != 'assignment' or st.get('hidden'):
                    continue
                lhs = st.get('lhs', '')
                fn = st.get('sourceLocation', {}).get('function', '')
                base = re.split(r'[\[.]', lhs)[0]
                if base.startswith('W_') or (fn == entry and not base.startswith('__') and 'return_value' not in base and '$' not in base):
                    v = st.get('value', {})
                    val = v.get('data', v.get('name'))
                    if 'elements' in v or 'members' in v:
                        continue
                    if lhs not in inputs:
                        order.append(lhs)
                    inputs[lhs] = val
            excerpt = '%s: %s' % (r.get('property'), r.get('description'))
    return {k: inputs[k] for k in order}, excerpt
