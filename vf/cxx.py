"""Locating C++ source text in /repo (functions, structs, enums, constants) without a C++ front end.

Everything here works on comment-stripped text with line structure preserved, by bracket matching.
A construct that cannot be located raises ExtractError -> the unit is undecided (exit 2), never proved.
"""
import os
import re
import subprocess
import functools

REPO = os.environ.get('VERIF_REPO', '/repo')


class ExtractError(Exception):
    pass


def strip_comments(s):
    """Remove // and /* */ comments, keep newlines; string/char literals are left alone."""
    out = []
    i = 0
    n = len(s)
    while i < n:
        c = s[i]
        if c == '"' or c == "'":
            j = i + 1
            while j < n and s[j] != c:
                if s[j] == '\\':
                    j += 1
                j += 1
            out.append(s[i:j + 1])
            i = j + 1
        elif s.startswith('//', i):
            j = s.find('\n', i)
            if j < 0:
                j = n
            i = j
        elif s.startswith('/*', i):
            j = s.find('*/', i + 2)
            if j < 0:
                j = n - 2
            out.append(re.sub(r'[^\n]', '', s[i:j + 2]))
            i = j + 2
        else:
            out.append(c)
            i += 1
    return ''.join(out)


def _macro_args():
    return ['-x', 'c++', '-std=c++11', '-I', os.path.join(REPO, 'include'),
            '-imacros', 'tins/macros.h', '-imacros', 'tins/endianness.h', '-imacros', 'tins/cxxstd.h']


@functools.lru_cache(maxsize=None)
def read_source(relpath):
    path = os.path.join(REPO, relpath)
    try:
        with open(path) as f:
            text = strip_comments(f.read())
    except OSError as e:
        raise ExtractError('cannot read %s: %s' % (path, e))
    # resolve the file's own #if blocks with the library's configuration macros; #include lines are dropped
    text = re.sub(r'^[ \t]*#[ \t]*include[^\n]*$', '', text, flags=re.M)
    g = re.search(r'#\s*ifndef\s+(\w+)\s*\n\s*#\s*define\s+\1\b', text)
    if g:   # the include guard is already defined by -imacros for the three configuration headers
        text = re.sub(r'\b' + g.group(1) + r'\b', g.group(1) + '_VERIF_EXTRACT', text)
    r = subprocess.run(['g++', '-E'] + _macro_args() + ['-'], input=text, capture_output=True, text=True)
    if r.returncode != 0:
        raise ExtractError('preprocessing %s failed: %s' % (relpath, r.stderr[:400]))
    return re.sub(r'^# \d+ [^\n]*$', '', r.stdout, flags=re.M)


def match_bracket(s, i, open_c, close_c):
    """s[i] == open_c; return index just after the matching close_c (string literals skipped)."""
    assert s[i] == open_c, (s[i:i + 20], open_c)
    d = 0
    n = len(s)
    while i < n:
        c = s[i]
        if c == '"' or c == "'":
            j = i + 1
            while j < n and s[j] != c:
                if s[j] == '\\':
                    j += 1
                j += 1
            i = j + 1
            continue
        if c == open_c:
            d += 1
        elif c == close_c:
            d -= 1
            if d == 0:
                return i + 1
        i += 1
    raise ExtractError('unbalanced %s' % open_c)


def find_class_body(src, cls):
    """Return (start, end) offsets of the text between the braces of `class/struct cls {...}`."""
    for m in re.finditer(r'\b(?:class|struct)\s+(?:TINS_API\s+)?' + re.escape(cls) + r'\b[^;{]*\{', src):
        j = m.end() - 1
        k = match_bracket(src, j, '{', '}')
        return j + 1, k - 1
    raise ExtractError('class %s not found' % cls)


class Func:
    def __init__(self, name, sig, params, inits, body, line, trailer):
        self.name = name          # qualified name as asked
        self.sig = sig            # text before the parameter list (return type + name)
        self.params = params      # text between the parentheses
        self.inits = inits        # constructor initialiser list text ('' if none)
        self.body = body          # text including the outer braces
        self.line = line          # 1-based line of the definition in the file
        self.trailer = trailer    # text between ')' and '{' (const, noexcept ...)


def _scan_defs(src, name_re, lo, hi):
    """All function *definitions* whose name matches name_re inside src[lo:hi]."""
    res = []
    for m in re.finditer(name_re + r'\s*\(', src[lo:hi]):
        start = lo + m.start()
        p = lo + m.end() - 1
        try:
            q = match_bracket(src, p, '(', ')')
        except ExtractError:
            continue
        # what follows: const / noexcept / override / initialiser list / '{' or ';'
        j = q
        inits = ''
        ok = False
        while j < hi:
            mm = re.compile(r'\s*(const|noexcept|TINS_NOEXCEPT|override|final)\b').match(src, j)
            if mm:
                j = mm.end()
                continue
            mm = re.compile(r'\s*').match(src, j)
            j = mm.end()
            if j < hi and src[j] == ':' and src[j:j + 2] != '::':
                # initialiser list: name(args) , name(args) ... {
                k = j + 1
                while True:
                    mm = re.compile(r'\s*[\w:<>]+\s*').match(src, k)
                    if not mm:
                        break
                    k = mm.end()
                    if k < hi and src[k] == '(':
                        k = match_bracket(src, k, '(', ')')
                    elif k < hi and src[k] == '{':
                        # brace-init member or the body: body if previous token ended an item
                        break
                    mm = re.compile(r'\s*,').match(src, k)
                    if mm:
                        k = mm.end()
                        continue
                    break
                inits = src[j + 1:k].strip()
                j = re.compile(r'\s*').match(src, k).end()
            if j < hi and src[j] == '{':
                ok = True
            break
        if not ok:
            continue
        e = match_bracket(src, j, '{', '}')
        # signature start: back to previous ';', '}', '{', or preprocessor line / access label
        s0 = start
        while s0 > lo and src[s0 - 1] not in ';{}':
            s0 -= 1
        head = src[s0:start]
        # drop access labels and preprocessor lines from the head
        head = re.sub(r'^\s*#[^\n]*$', '', head, flags=re.M)
        head = re.sub(r'\b(public|private|protected)\s*:', '', head)
        res.append(Func(None, (head + src[start:p]).strip(), src[p + 1:q - 1].strip(), inits,
                        src[j:e], src.count('\n', 0, start) + 1, src[q:j].strip()))
    return res


def find_function(relpath, qual, match=None, nth=0):
    """Locate the definition of `qual` (e.g. 'TCP::TCP', 'InputMemoryStream::skip', 'Utils::sum_range').

    First tries the out-of-class spelling `A::b(`; if absent, looks for `b(` inside `class A {}`.
    `match` is a substring that must occur in "<sig>(<params>) <trailer>" (overload selection).
    """
    src = read_source(relpath)
    cands = []
    parts = qual.split('::')
    if len(parts) >= 2:
        cands = _scan_defs(src, r'\b' + r'\s*::\s*'.join(re.escape(p) for p in parts[-2:]), 0, len(src))
        if len(parts) > 2:
            pass
    if not cands and len(parts) >= 2:
        try:
            lo, hi = find_class_body(src, parts[-2])
            cands = [f for f in _scan_defs(src, r'(?<![\w:~])' + re.escape(parts[-1]), lo, hi)]
        except ExtractError:
            cands = []
    if not cands:
        cands = _scan_defs(src, r'(?<![\w:~.>])' + re.escape(parts[-1]), 0, len(src))
    if match is not None:
        key = re.sub(r'\s+', '', match)
        cands = [f for f in cands
                 if key in re.sub(r'\s+', '', '%s(%s)%s' % (f.sig, f.params, f.trailer))]
    if len(cands) <= nth:
        raise ExtractError('function %s%s not found in %s' % (qual, ' [match %r]' % match if match else '', relpath))
    f = cands[nth]
    f.name = qual
    return f


def find_struct(relpath, name, kind=r'(?:struct|union)', nth=0):
    src = read_source(relpath)
    ms = list(re.finditer(r'\b(' + kind + r')\s+' + re.escape(name) + r'\s*\{', src))
    if len(ms) <= nth:
        raise ExtractError('struct %s not found in %s' % (name, relpath))
    m = ms[nth]
    k = match_bracket(src, m.end() - 1, '{', '}')
    return src[m.start():k] + packed_marker(src, k)


PACKED_RX = re.compile(r'\s*(?:\w+\s*)?(TINS_END_PACK|__attribute__\s*\(\(\s*packed\s*\)\))')


def packed_marker(src, k):
    """' /*PACKED*/' if the struct whose closing brace ends at offset k is declared packed (TINS_END_PACK), else ''"""
    return ' /*PACKED*/' if PACKED_RX.match(src, k) else ''


def find_enum(relpath, name, nth=0):
    src = read_source(relpath)
    ms = list(re.finditer(r'\benum\s+' + re.escape(name) + r'\s*\{', src))
    m = ms[nth] if nth < len(ms) else None
    if not m:
        raise ExtractError('enum %s not found in %s' % (name, relpath))
    k = match_bracket(src, m.end() - 1, '{', '}')
    return src[m.start():k]


def find_initializer(relpath, name, after=None):
    """`... name[...] = { ... };` or `... name = expr;` at any scope: returns the whole declaration.
    `after`: only look behind the first occurrence of that text (a class name, when several classes declare the same member)."""
    src = read_source(relpath)
    start = 0
    if after:
        start = src.find(after)
        if start < 0:
            raise ExtractError('marker %r not found in %s' % (after, relpath))
    m = re.compile(r'[^\n;{}]*\b' + re.escape(name) + r'\s*(\[[^\]]*\])*\s*=\s*').search(src, start)
    if not m:
        raise ExtractError('initializer %s not found in %s' % (name, relpath))
    j = m.end()
    if src[j] == '{':
        k = match_bracket(src, j, '{', '}')
    else:
        k = j
    e = src.index(';', k)
    return src[m.start():e + 1].strip()


def _macro_args():
    return ['-x', 'c++', '-std=c++11', '-I', os.path.join(REPO, 'include'),
            '-imacros', 'tins/macros.h', '-imacros', 'tins/endianness.h', '-imacros', 'tins/cxxstd.h']


def preprocess(text):
    """Resolve #if blocks in extracted text with exactly the macros the library build sees."""
    if '#' not in text and 'TINS_' not in text:
        return text
    r = subprocess.run(['g++', '-E', '-P'] + _macro_args() + ['-'], input=text, capture_output=True, text=True)
    if r.returncode != 0:
        raise ExtractError('preprocessing failed: ' + r.stderr[:400])
    return r.stdout


def class_methods(relpath, cls):
    """Names declared with a parameter list at depth 1 of the class body (methods, incl. inherited not)."""
    src = read_source(relpath)
    lo, hi = find_class_body(src, cls)
    body = src[lo:hi]
    # blank out nested braces
    out = []
    d = 0
    for c in body:
        if c == '{':
            d += 1
            out.append(' ')
        elif c == '}':
            d -= 1
            out.append(' ')
        else:
            out.append(c if d == 0 else (' ' if c != '\n' else '\n'))
    flat = ''.join(out)
    names = set()
    for m in re.finditer(r'(?<![\w:~])([A-Za-z_]\w*)\s*\(', flat):
        n = m.group(1)
        if n in ('if', 'while', 'for', 'switch', 'return', 'sizeof', 'operator', 'TINS_DEPRECATED', cls,
                 'static_cast', 'defined', 'throw'):
            continue
        names.add(n)
    return names


def class_members(relpath, cls):
    """Data members following libtins' trailing-underscore convention."""
    src = read_source(relpath)
    lo, hi = find_class_body(src, cls)
    return set(re.findall(r'\b([a-z]\w*_)\s*(?:\[[^\]]*\])?\s*;', src[lo:hi]))


def tokens(s):
    return re.findall(r'\w+|[^\s\w]', s)
