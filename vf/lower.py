"""cxx2c: rule-based lowering of an extracted C++ function body to C (DESIGN 3.1).

Generic rules fire opportunistically and are logged; per-unit rules (from the unit file) must fire unless marked
optional, otherwise the unit aborts (exit 2).
"""
import re
import difflib
from . import cxx

# classes whose objects are lowered to C structs with free functions  C++ name -> C prefix
KNOWN_CLASSES = {
    'InputMemoryStream': 'IMS', 'Memory::InputMemoryStream': 'IMS',
    'OutputMemoryStream': 'OMS', 'Memory::OutputMemoryStream': 'OMS',
}


class RuleLog:
    def __init__(self):
        self.fired = {}

    def hit(self, rule, n):
        if n:
            self.fired[rule] = self.fired.get(rule, 0) + n


def _sub(log, rule, pat, rep, s, flags=0):
    s2, n = re.subn(pat, rep, s, flags=flags)
    log.hit(rule, n)
    return s2


def _split_args(s):
    """split a top-level comma separated list"""
    out, d, cur = [], 0, ''
    for c in s:
        if c in '([{<' and not (c == '<' and False):
            d += c in '([{'
        if c in ')]}':
            d -= 1
        if c == ',' and d == 0:
            out.append(cur.strip())
            cur = ''
        else:
            cur += c
    if cur.strip():
        out.append(cur.strip())
    return out


def _rewrite_calls(s, pat, fn, log, rule):
    """find regex `pat` ending right before '(' and rewrite name+arglist with fn(match, args_text)."""
    out = []
    i = 0
    rx = re.compile(pat)
    n = 0
    while True:
        m = rx.search(s, i)
        if not m:
            out.append(s[i:])
            break
        p = m.end()
        if p >= len(s) or s[p] != '(':
            out.append(s[i:p])
            i = p
            continue
        q = cxx.match_bracket(s, p, '(', ')')
        inner = _rewrite_calls(s[p + 1:q - 1], pat, fn, log, rule)     # nested calls inside the argument list
        rep = fn(m, inner)
        if rep is None:
            out.append(s[i:p] + '(' + inner + ')')
            i = q
            continue
        out.append(s[i:m.start()])
        out.append(rep)
        i = q
        n += 1
    log.hit(rule, n)
    return ''.join(out)


def lower_body(body, cls=None, methods=(), members=(), objs=None, ptr_objs=None, log=None, overloads=None):
    """Apply the generic rules R1-R4, R7, R9 to a preprocessed body.

    objs: {var: Cprefix} locals/members of known classes held by value;
    ptr_objs: {var: Cprefix} same but the C variable is already a pointer (C++ reference parameters).
    overloads: {(method, arity): cname} explicit overload names.
    """
    log = log or RuleLog()
    objs = dict(objs or {})
    ptr_objs = dict(ptr_objs or {})
    overloads = overloads or {}
    b = body

    # R4 throw
    b = _sub(log, 'R4 throw', r'\bthrow\s+([\w:]+)\s*\([^;]*\)\s*;', lambda m: 'TINS_THROW(%s);' % m.group(1).split('::')[-1], b)
    # R3 casts
    for kw in ('static_cast', 'reinterpret_cast', 'const_cast'):
        while True:
            m = re.search(r'\b' + kw + r'\s*<', b)
            if not m:
                break
            # match the angle bracket (types only: no comparison operators inside)
            j = m.end() - 1
            d = 0
            k = j
            while True:
                if b[k] == '<':
                    d += 1
                elif b[k] == '>':
                    d -= 1
                    if d == 0:
                        break
                k += 1
            ty = b[j + 1:k].strip()
            p = re.compile(r'\s*\(').match(b, k + 1)
            q = cxx.match_bracket(b, p.end() - 1, '(', ')')
            b = b[:m.start()] + '((' + ty + ')(' + b[p.end():q - 1] + '))' + b[q:]
            log.hit('R3 ' + kw, 1)
    # R3 references in local declarations:  const T& x = e;  ->  const T x = e;   (value copy; only scalars)
    b = _sub(log, 'R3 scalar ref local', r'\b(const\s+(?:uint8_t|uint16_t|uint32_t|uint64_t|size_t|int|bool))\s*&\s*(\w+)\s*=', r'\1 \2 =', b)
    # R3 direct initialisation of scalars:  uint16_t i(0);  ->  uint16_t i = 0;
    b = _sub(log, 'R3 scalar direct-init', r'\b((?:const\s+)?(?:uint8_t|uint16_t|uint32_t|uint64_t|int|unsigned|size_t|bool))\s+(\w+)\(([^()]*)\)\s*;', r'\1 \2 = \3;', b)
    # R3 namespaces that are pure qualification
    b = _sub(log, 'R3 std::', r'\bstd::(memcpy|memset|memcmp|memmove|min|max|size_t)\b', r'\1', b)
    b = _sub(log, 'R3 Memory::', r'\bMemory::(?=InputMemoryStream|OutputMemoryStream)', '', b)
    # R9 endianness
    def endian(m, args):
        if m.group(2):   # explicit template argument = the width the library converts at
            return 'TINS_%s((%s)(%s))' % (m.group(1), m.group(2), args)
        return 'TINS_%s(%s)' % (m.group(1), args)
    b = _rewrite_calls(b, r'\bEndian::(host_to_be|be_to_host|host_to_le|le_to_host)\s*(?:<\s*(\w+)\s*>)?\s*(?=\()', endian, log, 'R9 Endian')

    # R2 known-class local declarations:  InputMemoryStream stream(a, b);  ->  IMS stream; IMS_ctor(&stream, a, b);
    def decl(m):
        c = KNOWN_CLASSES[m.group(1)]
        objs[m.group(2)] = c
        args = m.group(3).strip()
        return '%s %s; %s_ctor(&%s%s);' % (c, m.group(2), c, m.group(2), (', ' + args) if args else '')
    b = _sub(log, 'R2 object decl', r'\b(' + '|'.join(re.escape(k) for k in KNOWN_CLASSES) + r')\s+(\w+)\s*\(([^;]*)\)\s*;', decl, b)

    # R2 method calls on known objects
    for table, addr in ((objs, '&'), (ptr_objs, '')):
        for v, c in table.items():
            ve = re.escape(v)

            def call(m, args, c=c, v=v, addr=addr):
                name = m.group(1)
                targ = m.group(2)
                a = _split_args(args)
                key = (name, len(a))
                cname = overloads.get((c + '::' + name, len(a)))
                if cname is None and c == 'IMS' and name == 'read' and not targ and len(a) == 1:
                    return 'IMS_read_obj(%s%s, &(%s), sizeof(%s))' % (addr, v, a[0], a[0])
                if cname is None and c == 'IMS' and name == 'read' and not targ and len(a) == 2:
                    return 'IMS_read_buf(%s%s, %s, %s)' % (addr, v, a[0], a[1])
                if cname is None and c == 'OMS' and name == 'write' and not targ and len(a) == 1:
                    if re.match(r'^[\w.>\-\[\]]+$', a[0].replace('this->', 'this_')):      # an lvalue: write(const T&) copies the object
                        return 'OMS_write_obj(%s%s, &(%s), sizeof(%s))' % (addr, v, a[0], a[0])
                    return 'OMS_write_val(%s%s, %s)' % (addr, v, a[0])
                if cname is None and c == 'OMS' and name == 'write' and not targ and len(a) == 2:
                    if '.end()' in a[1] or '_end' in a[1]:
                        return 'OMS_write_range(%s%s, %s, %s)' % (addr, v, a[0], a[1])
                    return 'OMS_write_buf(%s%s, %s, %s)' % (addr, v, a[0], a[1])
                if cname is None and c == 'IMS' and name == 'size' and len(a) == 1:
                    return 'IMS_size_set(%s%s, %s)' % (addr, v, a[0])
                if cname is None:
                    cname = '%s_%s' % (c, name)
                    if targ:
                        cname += '_' + re.sub(r'\W+', '_', targ.strip()).strip('_')
                return '%s(%s%s%s)' % (cname, addr, v, (', ' + args) if args.strip() else '')
            b = _rewrite_calls(b, r'(?<![\w.>])' + ve + r'\s*\.\s*(\w+)\s*(?:<\s*([\w:\s\*]+?)\s*>)?\s*(?=\()', call, log, 'R2 obj.method')
            # boolean conversion: if (stream) / while (stream) / !stream
            b = _sub(log, 'R2 obj bool', r'\b(if|while)\s*\(\s*(!?)\s*' + ve + r'\s*\)', r'\1 (\2%s_bool(%s%s))' % (c, addr, v), b)
            b = _sub(log, 'R2 obj bool', r'(&&|\|\|)\s*(!?)\s*' + ve + r'\s*(\)|&&|\|\|)', r'\1 \2%s_bool(%s%s) \3' % (c, addr, v), b)
            b = _sub(log, 'R2 obj bool', r'\b(if|while)\s*\(\s*(!?)\s*' + ve + r'\s*(&&|\|\|)', r'\1 (\2%s_bool(%s%s) \3' % (c, addr, v), b)

    if cls:
        # R1 members (trailing underscore convention, or explicit list)
        def member(m):
            n = m.group(1)
            if members and n not in members:
                return m.group(0)
            return 'this->' + n
        if members:     # explicit member list (classes that do not follow the trailing-underscore convention)
            alt = '|'.join(sorted((re.escape(x) for x in members), key=len, reverse=True))
            b = _sub(log, 'R1 member', r'(?<![\w>.])(?<!->)\b(' + alt + r')\b(?!\s*\()', member, b)
        else:
            b = _sub(log, 'R1 member', r'(?<![\w>.])(?<!->)\b([a-z]\w*_)\b(?!\s*\()', member, b)

        # R11 virtual calls through the child/parent link, R1 the links themselves (not inside class PDU itself,
        # whose own bodies of these accessors are what C12 puts under contract)
        for link, mac in [] if cls == 'PDU' else (('inner_pdu', 'TINS_INNER'), ('parent_pdu', 'TINS_PARENT')):
            b = _rewrite_calls(b, r'(?<![\w>.:])(?<!->)\b' + link + r'\s*\(\s*\)\s*->\s*(\w+)\s*(?=\()',
                               lambda m, a, mac=mac: 'PDU_v_%s(%s(this)%s)' % (m.group(1), mac, (', ' + a) if a.strip() else ''), log, 'R11 virtual call')
            b = _sub(log, 'R1 link', r'(?<![\w>.:])(?<!->)\b' + link + r'\s*\(\s*\)', mac + '(this)', b)
        # inner_pdu(x): the re-linking setter (its own contract is under C12)
        if cls != 'PDU':
            b = _rewrite_calls(b, r'(?<![\w>.:])(?<!->)\binner_pdu\s*(?=\()',
                               lambda m, a: ('PDU_set_inner(&this->pdu_base_, %s)' % a) if a.strip() else None, log, 'R1 inner_pdu(x)')
        # R1 own methods
        def own(m, args):
            name = m.group(1)
            if name not in methods:
                return None
            a = _split_args(args)
            cname = overloads.get((name, len(a))) or ('%s_%s' % (KNOWN_CLASSES.get(cls, cls), name))
            return '%s(this%s)' % (cname, (', ' + args) if args.strip() else '')
        b = _rewrite_calls(b, r'(?<![\w>.:])(?<!->)\b([a-z_]\w*)\s*(?=\()', own, log, 'R1 own method')
        b = _sub(log, 'R1 this->method', r'\bthis->(\w+)\s*\(\s*\)', lambda m: '%s_%s(this)' % (KNOWN_CLASSES.get(cls, cls), m.group(1)) if m.group(1) in methods else m.group(0), b)

    # R7 new / delete
    b = _rewrite_calls(b, r'\bnew\s+(?:Tins::)?([\w:]+)\s*(?=\()', lambda m, a: 'new_%s(%s)' % (m.group(1).replace('::', '_'), a), log, 'R7 new')
    b = _sub(log, 'R7 delete', r'\bdelete\s+([\w>.\-]+)\s*;', r'TINS_DELETE(\1);', b)
    # R3 remaining scope operators on calls: Internals::f<...>(  Utils::f(
    b = _sub(log, 'R3 ns call', r'\b(Internals|Utils|Converters|Crypto)::(\w+)\s*(?:<\s*[\w:]+\s*>)?\s*\(', r'\1_\2(', b)
    # libtins idioms that are pure qualification
    b = _sub(log, 'R3 Constants enum cast', r'\(\s*Constants::\w+::e\s*\)', '(int)', b)
    b = _sub(log, 'R3 PDU:: enumerator', r'\bPDU::(IPv6|ICMPv6|DHCPv6|[A-Z][A-Z0-9_]+)\b', r'PT_\1', b)
    # arity-overloaded free functions
    b = _rewrite_calls(b, r'\bInternals_pdu_from_flag\s*(?=\()',
                       lambda m, a: ('Internals_pdu_from_flag4(%s)' % a) if len(_split_args(a)) == 4 else None, log, 'R2 arity overload')
    # C++ keywords / literals
    b = _sub(log, 'R3 nullptr', r'\bnullptr\b', 'NULL', b)
    return b, log


def verbatim_ratio(before, after):
    a = cxx.tokens(before)
    bb = cxx.tokens(after)
    sm = difflib.SequenceMatcher(None, a, bb, autojunk=False)
    same = sum(t.size for t in sm.get_matching_blocks())
    return len(a), len(bb), same


def loop_heads(body):
    """Offsets (just after the closing ')' of the head, or after 'do') of for/while loops in source order.

    `while` that terminates a do-while is skipped.
    """
    heads = []
    do_stack = []
    i = 0
    n = len(body)
    rx = re.compile(r'\b(for|while|do)\b')
    # determine do-while closers: a `while` directly following a `}` that closes a `do {` block
    do_closers = set()
    for m in re.finditer(r'\bdo\s*\{', body):
        k = cxx.match_bracket(body, m.end() - 1, '{', '}')
        mm = re.compile(r'\s*while\b').match(body, k)
        if mm:
            do_closers.add(mm.end() - 5)
    while True:
        m = rx.search(body, i)
        if not m:
            break
        kw = m.group(1)
        if kw == 'do':
            heads.append((m.start(), m.end(), 'do'))
            i = m.end()
            continue
        if kw == 'while' and m.start() in do_closers:
            i = m.end()
            continue
        p = re.compile(r'\s*\(').match(body, m.end())
        if not p:
            i = m.end()
            continue
        q = cxx.match_bracket(body, p.end() - 1, '(', ')')
        heads.append((m.start(), q, kw))
        i = q
    return heads


def splice_loop_contracts(body, loops, reach_prefix='L'):
    """Insert loop contract text after loop head `n` (source order); put a REACH marker first in each loop body.

    loops: {ordinal: text}. Loops without an entry get only the REACH marker.
    Raises if an ordinal does not exist (desynchronised -> exit 2).
    """
    heads = loop_heads(body)
    for k in loops:
        if k >= len(heads):
            raise cxx.ExtractError('loop %d has a contract but the function has %d loops' % (k, len(heads)))
    out = body
    for idx in range(len(heads) - 1, -1, -1):
        start, end, kw = heads[idx]
        # body brace
        mm = re.compile(r'\s*\{').match(out, end)
        ins = ''
        if idx in loops:
            ins = '\n' + loops[idx].rstrip() + '\n'
        if mm:
            bpos = mm.end()
            out = out[:end] + ins + out[end:bpos] + ' TINS_REACH("%s%d");' % (reach_prefix, idx) + out[bpos:]
        else:
            if ins:
                out = out[:end] + ins + out[end:]
    return out, len(heads)
