"""./check <property> [--tier quick|thorough] [--unit <substr>] [--keep] [--mutants] [--replay <file>]"""
import argparse
import concurrent.futures as cf
import glob
import hashlib
import importlib.util
import json
import os
import re
import shutil
import sys
import tempfile
import time
import subprocess

from . import cbmc, cxx, replay as replaymod

VERIF = cbmc.VERIF
SPECS = os.path.join(VERIF, 'specs')
KNOWN = os.path.join(VERIF, 'known_findings.json')

PROPS = {}   # id -> dict(level, design_ref, assumptions)


def load_props():
    with open(os.path.join(SPECS, 'properties_meta.json')) as f:
        return json.load(f)


def load_known():
    try:
        with open(KNOWN) as f:
            return json.load(f)
    except OSError:
        return {'known': [], 'fixed': []}


OBL_FILTER = {}     # unit path -> regex: obligations of a shared unit that belong to the property being run


def units_for(pid, scratch, tier, only=None):
    d = os.path.join(SPECS, pid)
    paths = sorted(glob.glob(os.path.join(d, '*.unit')))
    gen_dir = os.path.join(scratch, 'gen')
    for g in sorted(glob.glob(os.path.join(d, '*.gen.py'))):
        os.makedirs(gen_dir, exist_ok=True)
        spec = importlib.util.spec_from_file_location('gen_' + os.path.basename(g)[:-7], g)
        mod = importlib.util.module_from_spec(spec)
        spec.loader.exec_module(mod)
        paths += mod.generate(gen_dir, tier)
    # shared units listed by reference:  specs/<pid>/shared.txt  lines "C01/tcp_ctor.unit"
    sh = os.path.join(d, 'shared.txt')
    if os.path.exists(sh):
        for ln in open(sh):
            ln = ln.split('#')[0].strip()
            flt = None
            if ' ~' in ln:                         # "C15/accessors.gen.py ~regex": only the obligations whose text matches belong to this property
                ln, flt = ln.split(' ~', 1)
                ln, flt = ln.strip(), re.compile(flt.strip())
            n0 = len(paths)
            if ln and ln.endswith('.gen.py'):      # a generator of another property: its units are generated for this run too
                g = os.path.join(SPECS, ln)
                gd = os.path.join(gen_dir, 'shared_' + ln.replace('/', '_')[:-7])
                os.makedirs(gd, exist_ok=True)
                spec = importlib.util.spec_from_file_location('gen_shared_' + os.path.basename(g)[:-7], g)
                mod = importlib.util.module_from_spec(spec)
                spec.loader.exec_module(mod)
                paths += mod.generate(gd, tier)
            elif ln:
                paths.append(os.path.join(SPECS, ln))
            if flt is not None:
                for q in paths[n0:]:
                    OBL_FILTER[q] = flt
    if only:
        paths = [p for p in paths if only in os.path.basename(p)]
    return paths


def unit_tier(path):
    with open(path) as f:
        for ln in f:
            if ln.startswith('#! tier:'):
                return ln.split(':', 1)[1].strip()
            if not ln.startswith('#!') and ln.strip():
                break
    return 'quick'


def known_match(known, pid, o):
    for k in known.get('known', []):
        if k['property'] == pid and k['obligation'] == o['name']:
            return k
    return None


def main(argv=None):
    ap = argparse.ArgumentParser()
    ap.add_argument('property')
    ap.add_argument('--tier', default=os.environ.get('VERIF_TIER', 'quick'))
    ap.add_argument('--unit')
    ap.add_argument('--keep', action='store_true')
    ap.add_argument('--mutants', action='store_true', help='only run the seeded mutants of the units')
    ap.add_argument('--replay')
    ap.add_argument('-j', type=int, default=int(os.environ.get('VERIF_JOBS', '14')))
    ap.add_argument('-v', action='store_true')
    a = ap.parse_args(argv)
    pid = a.property
    tier = 'thorough' if a.tier == 'thorough' else 'quick'
    seed = int(os.environ.get('VERIF_SEED', '0') or 0)
    if a.replay:
        return replaymod.replay_file(a.replay)
    meta = load_props().get(pid)
    if meta is None:
        print('unknown or not-applicable property', pid)
        return 2
    known = load_known()
    t0 = time.time()
    scratch = tempfile.mkdtemp(prefix='vp.%s.' % pid, dir='/var/tmp')
    rc = 2
    try:
        rc = run_property(pid, tier, seed, meta, known, scratch, a)
    finally:
        if not a.keep:
            shutil.rmtree(scratch, ignore_errors=True)
        else:
            print('scratch kept:', scratch)
    return rc


def run_property(pid, tier, seed, meta, known, scratch, a):
    t0 = time.time()
    try:
        paths = units_for(pid, scratch, tier, a.unit)
    except cxx.ExtractError as e:
        print('UNDECIDED generator failed: %s' % e)
        write_evidence(pid, tier, seed, meta, [], [], [], time.time() - t0, ['generator failed: %s' % e], [])
        return 2
    paths = [p for p in paths if tier == 'thorough' or unit_tier(p) != 'thorough']
    results = []
    jobs = []
    with cf.ThreadPoolExecutor(max_workers=a.j) as ex:
        for p in paths:
            if not a.mutants:
                jobs.append(ex.submit(cbmc.run_unit, p, scratch))
        for j in jobs:
            results.append(j.result())
        mutant_results = []
        if tier == 'thorough' or a.mutants:
            mjobs = []
            for r in list(results) if not a.mutants else []:
                if r.unit is None:
                    continue
                for i, mu in enumerate(r.unit.mutants):
                    mjobs.append((r.name, mu, ex.submit(cbmc.run_unit, r.unit.path, scratch, [mu], '#mutant%d' % i)))
            if a.mutants:
                from . import unit as unitmod
                for p in paths:
                    try:
                        u = unitmod.build(p)
                    except cxx.ExtractError:
                        continue
                    for i, mu in enumerate(u.mutants):
                        mjobs.append((u.get('unit'), mu, ex.submit(cbmc.run_unit, p, scratch, [mu], '#mutant%d' % i)))
            for nm, mu, j in mjobs:
                mr = j.result()
                mutant_results.append({'unit': nm, 'mutant': '%s: %s ==> %s' % (mu[0].replace('\x00', ' '), mu[1], mu[2]), 'caught': mr.status == 'fail' or bool(mr.structure_failed),
                                       'status': mr.status, 'reason': mr.reason, 'failed': [o['name'] for o in mr.failed[:3]]})
    undecided = [r for r in results if r.status == 'undecided']
    violations = []
    known_hits = []
    for r in results:
        flt = OBL_FILTER.get(r.unit.path) if r.unit is not None else None
        if flt is not None:      # a shared unit run for another property: only the obligations that property states are counted
            r.obligations = [o for o in r.obligations if o['class'] != 'assertion' or flt.search(o['description'])]
            r.failed = [o for o in r.failed if o['class'] != 'assertion' or flt.search(o['description'])]
            r.obligation_filter = flt.pattern
            if r.status == 'fail' and not r.failed:
                r.status = 'ok'
        if r.status != 'fail':
            continue
        for o in r.failed:
            k = known_match(known, pid, o)
            if k:
                known_hits.append((r, o, k))
            else:
                violations.append((r, o))
    # report
    lines = []
    seen = set()
    for r, o, k in known_hits:
        if o['name'] in seen:
            continue
        seen.add(o['name'])
        print('KNOWN-FINDING: property=%s %s [%s]' % (pid, k['what'], o['name']))
    vio_files = []
    seen = set()
    for r, o in violations:
        if o['name'] in seen:
            continue
        seen.add(o['name'])
        path, reproduced = replaymod.make_replay(pid, r, o, scratch)
        vio_files.append(path)
        print('VIOLATION property=%s replay=%s%s' % (pid, path, '' if reproduced else ' no-failing-input-found'))
        print('  failed obligation: %s  (%s: %s)' % (o['name'], o['id'], o['description']))
    for r in undecided:
        print('UNDECIDED unit=%s: %s' % (r.name, r.reason))
    caught_keys = set(m['mutant'] for m in mutant_results if m['caught'])
    missed = []
    for m in mutant_results:     # a mutant of a shared (lib) function counts as caught if any unit using it fails
        if not m['caught'] and m['mutant'] not in caught_keys and m['mutant'] not in [x['mutant'] for x in missed]:
            missed.append(m)
    for m in missed:
        print('UNDECIDED seeded mutant not caught: unit=%s %s (%s %s)' % (m['unit'], m['mutant'], m['status'], m['reason']))
    wall = time.time() - t0
    if not (a.mutants or a.unit or os.environ.get('VERIF_NO_EVIDENCE')):     # partial runs and seed trials (debugging) never overwrite the evidence file
        write_evidence(pid, tier, seed, meta, results, known_hits, violations, wall, [], mutant_results)
    nob = sum(r.counts()[0] for r in results)
    nok = sum(r.counts()[1] for r in results)
    print('%s tier=%s units=%d ok=%d fail=%d undecided=%d obligations=%d discharged=%d known=%d wall=%.1fs' % (
        pid, tier, len(results), sum(r.status == 'ok' for r in results), sum(r.status == 'fail' for r in results),
        len(undecided), nob, nok, len(set(o['name'] for _, o, _ in known_hits)), wall))
    if a.v:
        for r in results:
            print('  %-40s %-9s %4d/%-4d adv=%d %.1fs %s' % (r.name, r.status, r.counts()[1], r.counts()[0], r.advisory, r.seconds, r.reason))
    if violations:
        return 1
    if undecided or missed or not results:
        return 2
    return 0


def write_evidence(pid, tier, seed, meta, results, known_hits, violations, wall, notes, mutant_results):
    units = []
    proof_ob = proof_ok = 0
    bounded_ob = bounded_ok = 0
    known_names = set(o['name'] for _, o, _ in known_hits)
    samples = []
    assumed = set()
    anchors = []
    backends = set()
    solver = 0.0
    for r in results:
        u = r.unit
        mode = u.get('mode', 'proof') if u else '?'
        n, ok = r.counts()
        nk = sum(1 for o in r.failed if o['name'] in known_names)
        if mode == 'bounded':
            bounded_ob += n - nk
            bounded_ok += ok
        else:
            proof_ob += n - nk
            proof_ok += ok
        solver += r.solver_seconds
        ent = {'unit': r.name, 'status': r.status, 'reason': r.reason, 'mode': mode, 'bound': u.get('bound', '') if u else '',
               'pipeline': u.get('pipeline', 'dfcc') if u else '', 'back_end': 'cbmc 6.11, portfolio MiniSat 2.2.1 | CaDiCaL (first to answer)' if not (u and ('--cvc5' in u.get('cbmc', '') or '--z3' in u.get('cbmc', ''))) else u.get('cbmc'),
               'obligations': n, 'discharged': ok, 'known_finding_obligations': nk, 'advisory_pointer_arith': r.advisory,
               'reach_guards': r.reach, 'vacuous': r.vacuous, 'seconds': round(r.seconds, 2), 'solver_seconds': round(r.solver_seconds, 2),
               'functions': u.funcs if u else [], 'enforced': u.getlist('enforce') if u else [], 'replaced_by_contract': u.getlist('replace') if u else [],
               'assumed': u.get('assumed', '') if u else '', 'advisory_waiver': ((u.get('advisory', '') + ' -- ' + u.get('advisory-reason', '')) if u and u.get('advisory') else ''), 'anchors': u.get('anchors', '') if u else '',
               'failed': [{'obligation': o['name'], 'cbmc': o['id'], 'description': o['description']} for o in r.failed],
               'generator': {k: v for k, v in (u.gen_meta or {}).items() if k != 'functions'} if u else {},
               'obligation_filter': getattr(r, 'obligation_filter', ''),
               'by_class': {}}
        for o in r.obligations:
            ent['by_class'][o['class']] = ent['by_class'].get(o['class'], 0) + 1
        units.append(ent)
        if u and u.get('assumed'):
            assumed.add('%s: %s' % (r.name, u.get('assumed')))
        if r.obligations and len(samples) < 6:
            obs = [o for o in r.obligations if o['class'] not in ('reach', 'advisory')]
            pick = [o for o in obs if o['class'] in ('postcondition', 'assertion', 'callee-precondition', 'frame')][:1] or obs[:1]
            for o in pick:
                samples.append({'obligation': o['name'], 'cbmc_property': o['id'], 'description': o['description'], 'status': o['status']})
    level = meta.get('level', 'proof')
    cov = {
        'obligations': proof_ob, 'discharged': proof_ok,
        'bounded_units': sum(1 for e in units if e['mode'] == 'bounded'), 'bounded_obligations': bounded_ob, 'bounded_discharged': bounded_ok,
        'known_finding_obligations': len(known_names),
        'checker_cmd': 'goto-cc --function <entry> unit.c; goto-instrument --dfcc <entry> --enforce-contract F [--replace-call-with-contract G]* --apply-loop-contracts; cbmc --json-ui ' + ' '.join(cbmc.checks_flags(type('U', (), {'get': lambda s, k, d='': d})())),
        'trusted_base': meta.get('trusted_base', []),
        'units': units, 'samples': samples,
        'functions_under_contract': sorted(set(f['function'] for e in units for f in e['functions'])),
        'solver_seconds': round(solver, 1),
        'seeded_mutants': mutant_results,
        'undecided_units': [e['unit'] for e in units if e['status'] == 'undecided'],
        'explanation': (meta.get('explanation') or meta.get('text') or meta.get('note') or 'see DESIGN.md'),
        'not_under_contract': meta.get('not_under_contract', []),
        'notes': notes,
    }
    ev = {'property_id': pid, 'tier': tier, 'seed': seed, 'level': level, 'coverage': cov,
          'assumptions': meta.get('assumptions', []) + sorted(assumed), 'wall_s': round(wall, 2),
          'violations': len(set(o['name'] for _, o in violations))}
    os.makedirs(os.path.join(VERIF, 'evidence'), exist_ok=True)
    with open(os.path.join(VERIF, 'evidence', pid + '.json'), 'w') as f:
        json.dump(ev, f, indent=1)


if __name__ == '__main__':
    sys.exit(main())
