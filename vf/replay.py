"""Counterexample concretisation and native replay against libtins built from the working tree (DESIGN 3.5)."""
import glob
import hashlib
import json
import os
import subprocess
import threading
import sys

from . import cbmc

VERIF = cbmc.VERIF
REPO = os.environ.get('VERIF_REPO', '/repo')
_lock = threading.Lock()
_lib = {}


def build_asan_lib(scratch):
    """Compile every libtins source of the working tree with ASan+UBSan into a static archive (once per run)."""
    with _lock:
        if 'path' in _lib:
            return _lib['path']
        d = os.path.join(scratch, 'asanlib')
        os.makedirs(d, exist_ok=True)
        srcs = sorted(glob.glob(os.path.join(REPO, 'src', '**', '*.cpp'), recursive=True))
        script = os.path.join(d, 'build.sh')
        with open(script, 'w') as f:
            f.write('#!/bin/sh\nset -e\ncd %s\n' % d)
            f.write("printf '%s\\n' " + ' '.join(srcs) + " | xargs -P 16 -I{} sh -c 'g++ -std=c++11 -O1 -g -fno-omit-frame-pointer "
                    "-fsanitize=address,undefined -fno-sanitize-recover=undefined -I%s/include -c {} -o $(echo {} | md5sum | cut -c1-12).o'\n" % REPO)
            f.write('ar rcs libtins_asan.a *.o\n')
        r = subprocess.run(['sh', script], capture_output=True, text=True)
        if r.returncode != 0:
            _lib['path'] = None
            _lib['err'] = r.stderr[-2000:]
        else:
            _lib['path'] = os.path.join(d, 'libtins_asan.a')
        return _lib['path']


def run_driver(driver, json_path, scratch):
    """Returns (reproduced: bool|None, output). None = driver could not be built."""
    src = os.path.join(VERIF, 'replay', driver + '.cpp')
    if not os.path.exists(src):
        return None, 'no native replay driver %s' % driver
    lib = build_asan_lib(scratch)
    if not lib:
        return None, 'ASan build of libtins failed: ' + _lib.get('err', '')
    exe = os.path.join(scratch, 'replay_' + driver)
    if not os.path.exists(exe):
        r = subprocess.run(['g++', '-std=c++11', '-O1', '-g', '-fsanitize=address,undefined', '-fno-sanitize-recover=undefined',
                            '-I', os.path.join(REPO, 'include'), '-I', os.path.join(VERIF, 'replay'), src, lib, '-lpcap', '-lcrypto', '-lpthread', '-o', exe],
                           capture_output=True, text=True)
        if r.returncode != 0:
            return None, 'driver build failed: ' + r.stderr[-1500:]
    env = dict(os.environ, ASAN_OPTIONS='detect_leaks=1:abort_on_error=0:exitcode=99', UBSAN_OPTIONS='print_stacktrace=1:exitcode=98')
    try:
        r = subprocess.run([exe, json_path], capture_output=True, text=True, errors='replace', timeout=120, env=env)
    except subprocess.TimeoutExpired:
        return True, 'native replay did not terminate within 120 s'
    out = (r.stdout + r.stderr)[-4000:]
    return r.returncode != 0, 'exit=%d\n%s' % (r.returncode, out)


def make_replay(pid, res, o, scratch):
    inputs, excerpt = cbmc.trace_for(res, o)
    h = hashlib.sha1(o['name'].encode()).hexdigest()[:10]
    os.makedirs(os.path.join(VERIF, 'replays'), exist_ok=True)
    path = os.path.join(VERIF, 'replays', '%s-%s-%s.json' % (pid, res.name.replace('/', '_'), h))
    doc = {'property': pid, 'unit': res.name, 'obligation': o['name'], 'cbmc_property': o['id'],
           'description': o['description'], 'source_line_in_extracted_unit': o['text'],
           'functions': [f['function'] + ' (' + f['file'] + ')' for f in res.unit.funcs],
           'inputs': inputs, 'cbmc_output': excerpt, 'driver': res.unit.get('replay', ''), 'native': None}
    with open(path, 'w') as f:
        json.dump(doc, f, indent=1)
    write_kv(path, doc)
    reproduced = False
    drv = res.unit.get('replay')
    if drv:
        rep, out = run_driver(drv, path, scratch)
        doc['native'] = {'reproduced': rep, 'output': out}
        reproduced = bool(rep)
        with open(path, 'w') as f:
            json.dump(doc, f, indent=1)
    return path, reproduced


def write_kv(path, doc):
    with open(path + '.kv', 'w') as f:
        f.write('unit=%s\nobligation=%s\n' % (doc['unit'], doc['obligation'].replace('\n', ' ')))
        for k, v in doc['inputs'].items():
            f.write('%s=%s\n' % (k, v))


def replay_file(path):
    import tempfile
    import shutil
    with open(path) as f:
        doc = json.load(f)
    print('obligation:', doc['obligation'])
    print('inputs:', json.dumps(doc['inputs']))
    if not doc.get('driver'):
        print('no native driver for this unit; verifier output:', doc.get('cbmc_output'))
        return 0
    scratch = tempfile.mkdtemp(prefix='vp.replay.', dir='/var/tmp')
    write_kv(path, doc)
    try:
        rep, out = run_driver(doc['driver'], path, scratch)
        print(out)
        return 1 if rep else 0
    finally:
        shutil.rmtree(scratch, ignore_errors=True)
