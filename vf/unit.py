"""Unit files (/verif/specs/<Cxx>/<name>.unit) -> a C translation unit for CBMC.

A unit file is C text with `#!` header lines and `//@` directives that pull text out of /repo *on every run*:

  #! unit: tcp.ctor            #! property: C01        #! mode: proof|unwinding|bounded     #! bound: <text>
  #! pipeline: dfcc|plain      #! entry: h_tcp_ctor    #! enforce: TCP_ctor                 #! replace: F G H
  #! cbmc: <extra flags>       #! objbits: N           #! timeout: seconds                  #! tier: quick|thorough
  #! unreach: <REACH tags that are allowed to be unreachable>      #! anchors: <repo functions under contract>
  #! assumed: <callee contracts assumed, free text>                 #! replay: <driver name>

  //@ include <file under /verif/specs>
  //@ struct <relpath> <name> [as <cname>]
  //@ enum <relpath> <name> [as <cname>] [nth <k>] [prefix <P>]
  //@ init <relpath> <name> [after <text>]  [then optional `rule:` lines and `//@ endinit`]   (needs endinit only if rules given)
  //@ func <relpath> <Qualified::name> [match "<text>"] [nth <k>]      (`//@ func? ...`: skipped when the function does not exist)
      sig: <C signature>
      class: <Class> <header relpath>       (R1: members/methods read from the class declaration)
      obj: v=IMS ...      ptrobj: v=IMS ...      overload: name/arity=cname ...
      inits: lower                            (constructor initialiser list -> assignments)
      rule: <python regex> ==> <replacement>  (must fire)       rule?: ... (optional)
      pre: <raw C line put first in the body>
      contract:  ... lines ...  end
      loop <n>:  ... lines ...  end
      mutant: <regex> ==> <replacement>       (seeded mutant; the proof must fail on it in `thorough`)
  //@ endfunc
"""
import os
import re
import shlex
from . import cxx, lower

SPECS = os.path.join(os.path.dirname(os.path.dirname(os.path.abspath(__file__))), 'specs')


class Unit:
    def __init__(self, path):
        self.path = path
        self.hdr = {}
        self.funcs = []        # metadata per extracted function
        self.rules = {}        # rule -> count
        self.mutants = []      # (func, pattern, repl)
        self.c_text = None
        self.errors = []
        self.gen_meta = None

    def get(self, k, d=None):
        return self.hdr.get(k, d)

    def getlist(self, k):
        return self.hdr.get(k, '').split()


def _parse_rule(s):
    if '==>' not in s:
        raise cxx.ExtractError('bad rule (no ==>): ' + s)
    pat, rep = s.split('==>', 1)
    return pat.strip(), rep.strip()


def _lower_struct(text, cname, log, subst=()):
    text = cxx.preprocess(text)
    for a_, b_ in subst:
        text = text.replace(a_, b_)
    m = re.match(r'\s*(struct|union)\s+(\w+)\s*\{', text)
    kind, name = m.group(1), m.group(2)
    body = text[m.end() - 1:]
    # member functions / constructors inside the struct are not data: blank them out
    for f_ in cxx._scan_defs(body, r'(?<![\w:~])[A-Za-z_]\w*(?:\s*==)?', 1, len(body) - 1):
        pass
    defs = []
    for mm in re.finditer(r'(?<![\w:~])(?:operator\s*\S+|[A-Za-z_]\w*)\s*\(', body):
        p0 = mm.end() - 1
        try:
            q0 = cxx.match_bracket(body, p0, '(', ')')
        except cxx.ExtractError:
            continue
        j0 = q0
        while True:
            m2 = re.compile(r'\s*(const|noexcept)\b').match(body, j0)
            if not m2:
                break
            j0 = m2.end()
        m2 = re.compile(r'\s*').match(body, j0)
        j0 = m2.end()
        if j0 < len(body) and body[j0] == ':' and body[j0:j0 + 2] != '::':
            k0 = body.find('{', j0)
            # skip initialiser items with parentheses
            k0 = j0 + 1
            while True:
                m3 = re.compile(r'\s*\w+\s*\(').match(body, k0)
                if not m3:
                    break
                k0 = cxx.match_bracket(body, m3.end() - 1, '(', ')')
                m3 = re.compile(r'\s*,').match(body, k0)
                if m3:
                    k0 = m3.end()
            j0 = re.compile(r'\s*').match(body, k0).end()
        if j0 < len(body) and body[j0] == '{':
            e0 = cxx.match_bracket(body, j0, '{', '}')
            s0 = mm.start()
            while s0 > 1 and body[s0 - 1] not in ';{}':
                s0 -= 1
            defs.append((s0, e0))
    kept = []
    for s0, e0 in sorted(defs):
        if kept and s0 < kept[-1][1]:
            continue          # nested inside an already found definition (initialiser items, calls in bodies)
        kept.append((s0, e0))
    for s0, e0 in reversed(kept):
        body = body[:s0] + ' ' + body[e0:]
    # C++-isms inside header structs
    body = re.sub(r'\bTINS_END_PACK\b|\bTINS_BEGIN_PACK\b|__attribute__\s*\(\(packed\)\)', '', body)
    body = re.sub(r'\b(\w+)::address_size\b', lambda mm: {'IPv6Address': '16', 'IPv4Address': '4'}.get(mm.group(1), mm.group(0)), body)
    body = re.sub(r'\b(hw)?address_type::address_size\b', '6', body)
    cname = cname or name
    packed = '/*PACKED*/' in body
    body = body.replace('/*PACKED*/', '')
    return 'typedef %s %s %s_s %s %s;\n' % (kind, '__attribute__((packed))' if packed else '/* not packed in the source */', cname, body.rstrip(), cname)


def _process_func(u, header_line, lines, mutate=None):
    toks = shlex.split(header_line)
    relpath, qual = toks[0], toks[1]
    match, nth = None, 0
    i = 2
    while i < len(toks):
        if toks[i] == 'match':
            match = toks[i + 1]
            i += 2
        elif toks[i] == 'nth':
            nth = int(toks[i + 1])
            i += 2
        else:
            raise cxx.ExtractError('bad func directive: ' + header_line)
    sig = None
    cls = None
    clshdr = None
    objs, ptrobjs, overloads = {}, {}, {}
    rules = []
    prerules = []
    pre = []
    post = []
    contract = []
    loops = {}
    inits_mode = None
    members_extra = set()
    methods_extra = set()
    # the function is located first so that sub-directives can be conditional on its C++ signature
    f = cxx.find_function(relpath, qual, match, nth)
    sigtext = re.sub(r'\s+', ' ', '%s(%s) %s' % (f.sig, f.params, f.trailer))
    before = []
    j = 0
    while j < len(lines):
        ln = lines[j].strip()
        j += 1
        if not ln or ln.startswith('##'):
            continue
        mcond = re.match(r'\[(if|ifnot) ([^\]]+)\]\s*(.*)$', ln)
        if mcond:
            hit = re.search(mcond.group(2), sigtext) is not None
            if hit != (mcond.group(1) == 'if'):
                continue
            ln = mcond.group(3)
        if ln.startswith('before:'):
            before.append(ln[7:].strip())
        elif ln.startswith('sig:'):
            sig = ln[4:].strip()
        elif ln.startswith('class:'):
            p = ln[6:].split()
            cls = p[0]
            clshdr = p[1] if len(p) > 1 else None
        elif ln.startswith('methods:'):
            methods_extra |= set(ln[8:].split())
        elif ln.startswith('members:'):
            members_extra |= set(ln[8:].split())
        elif ln.startswith('obj:'):
            for kv in ln[4:].split():
                k, v = kv.split('=')
                objs[k] = v
        elif ln.startswith('ptrobj:'):
            for kv in ln[7:].split():
                k, v = kv.split('=')
                ptrobjs[k] = v
        elif ln.startswith('overload:'):
            for kv in ln[9:].split():
                k, v = kv.split('=')
                n, a = k.split('/')
                overloads[(n, int(a))] = v
        elif ln.startswith('inits:'):
            inits_mode = ln[6:].strip()
        elif ln.startswith('prerule?:'):
            prerules.append(_parse_rule(ln[9:]) + (False,))
        elif ln.startswith('prerule:'):
            prerules.append(_parse_rule(ln[8:]) + (True,))
        elif ln.startswith('rule?:'):
            rules.append(_parse_rule(ln[6:]) + (False,))
        elif ln.startswith('rule:'):
            rules.append(_parse_rule(ln[5:]) + (True,))
        elif ln.startswith('pre:'):
            pre.append(ln[4:].strip())
        elif ln.startswith('post:'):
            post.append(ln[5:].strip())
        elif ln.startswith('mutant:'):
            # `#! skip-mutants: <substr> ...`: mutants of shared (lib) functions this unit does not depend on
            if not any(sk in qual for sk in u.get('skip-mutants', '').split()):
                u.mutants.append((qual + '\x00' + (match or ''),) + _parse_rule(ln[7:]))
        elif ln == 'contract:':
            while lines[j].strip() != 'end':
                contract.append(lines[j].rstrip())
                j += 1
            j += 1
        elif re.match(r'loop\s+\d+\s*:$', ln):
            n = int(re.match(r'loop\s+(\d+)', ln).group(1))
            acc = []
            while lines[j].strip() != 'end':
                acc.append(lines[j].rstrip())
                j += 1
            j += 1
            loops[n] = '\n'.join(acc)
        else:
            raise cxx.ExtractError('unknown func sub-directive: ' + ln)
    if sig is None:
        raise cxx.ExtractError('func %s: no sig:' % qual)
    body = f.body
    if mutate:
        for (mq, pat, rep) in mutate:
            if mq == qual + '\x00' + (match or ''):
                body, n = re.subn(pat, rep, body, count=1)
                if n == 0:
                    raise cxx.ExtractError('mutant pattern did not match in %s: %s' % (qual, pat))
    raw_body = cxx.preprocess(body)
    methods, members = set(methods_extra), set(members_extra)
    if cls and clshdr:
        methods |= cxx.class_methods(clshdr, cls)
        members |= cxx.class_members(clshdr, cls)
    log = lower.RuleLog()
    pb = raw_body
    for pat, rep, must in prerules:
        pb, n = re.subn(pat, rep, pb, flags=re.S)
        if n == 0 and must:
            raise cxx.ExtractError('must-fire prerule did not fire in %s: %s' % (qual, pat))
        log.hit('U(pre) %s' % pat, n)
    b, _ = lower.lower_body(pb, cls=cls, methods=methods, members=members if members_extra else (),
                            objs=objs, ptr_objs=ptrobjs, log=log, overloads=overloads)
    if inits_mode in ('lower', 'lower-all') and f.inits:
        stmts = []
        for item in lower._split_args(f.inits):
            m = re.match(r'([\w:<>]+)\s*\((.*)\)$', item, re.S)
            if not m:
                raise cxx.ExtractError('cannot lower initialiser: ' + item)
            nm, arg = m.group(1), m.group(2).strip()
            if nm.endswith('_') or inits_mode == 'lower-all':
                # `m()` value-initialises the member (zero for scalars and aggregates): memset, since the member may be a struct
                stmts.append(('this->%s = %s;' % (nm, arg)) if arg else ('memset(&this->%s, 0, sizeof(this->%s));' % (nm, nm)))
            else:
                stmts.append('/* base %s(%s) */' % (nm, arg))
        itext, _ = lower.lower_body(' '.join(stmts), cls=None, log=log)
        pre = pre + [itext]
        log.hit('R1 ctor initialiser list', len(stmts))
    if pre:
        k = b.index('{') + 1
        b = b[:k] + '\n    ' + '\n    '.join(pre) + b[k:]
    if post:
        k = b.rindex('}')
        b = b[:k] + '    ' + '\n    '.join(post) + '\n' + b[k:]
    for pat, rep, must in rules:
        b2, n = re.subn(pat, rep, b, flags=re.S)
        if n == 0 and must:
            if os.environ.get('VERIF_DEBUG_BODY'):
                with open(os.environ['VERIF_DEBUG_BODY'], 'w') as df:
                    df.write(b)
            raise cxx.ExtractError('must-fire rule did not fire in %s: %s' % (qual, pat))
        log.hit('U %s' % pat, n)
        b = b2
    # R-ref: a C++ reference parameter that the C signature takes by pointer: `name.member` -> `name->member`
    cpp_refs = set(re.findall(r'&\s*(\w+)\s*(?:,|$)', f.params or ''))
    c_ptrs = set(re.findall(r'\*\s*(\w+)\s*(?:,|\))', sig))
    for nm in sorted(cpp_refs & c_ptrs):
        b, n = re.subn(r'(?<![\w.>])%s\.(?=[A-Za-z_])' % re.escape(nm), nm + '->', b)
        if n:
            log.hit('R-ref %s' % nm, n)
    b, nloops = lower.splice_loop_contracts(b, loops, reach_prefix=re.sub(r'\W', '_', sig.split('(')[0].split()[-1].lstrip('*')) + '.L')
    nin, nout, same = lower.verbatim_ratio(raw_body, b)
    u.funcs.append({'function': qual, 'file': relpath, 'line': f.line, 'c_name': sig.split('(')[0].split()[-1].lstrip('*'),
                    'loops': nloops, 'loop_contracts': sorted(loops), 'tokens_in': nin, 'tokens_out': nout,
                    'tokens_unchanged': same, 'rules': dict(log.fired)})
    for k, v in log.fired.items():
        u.rules[k] = u.rules.get(k, 0) + v
    text = '%s\n/* extracted: %s :: %s (line %d) */\n%s\n%s\n%s\n' % ('\n'.join(before), relpath, qual, f.line, sig, '\n'.join(contract), b)
    return text


def _expand(u, text, depth=0, mutate=None):
    out = []
    lines = text.split('\n')
    i = 0
    while i < len(lines):
        ln = lines[i]
        s = ln.strip()
        if s.startswith('#!'):
            if depth == 0 and ':' in s:
                k, v = s[2:].split(':', 1)
                k = k.strip()
                v = v.strip()
                if k in u.hdr and k in ('replace', 'cbmc', 'unreach', 'anchors', 'assumed', 'enforce'):
                    u.hdr[k] += ' ' + v
                else:
                    u.hdr[k] = v
            i += 1
            continue
        if not s.startswith('//@'):
            out.append(ln)
            i += 1
            continue
        d = s[3:].strip()
        i += 1
        if d.startswith('include '):
            p = os.path.join(SPECS, d.split()[1])
            with open(p) as f:
                out.append('/* include %s */' % d.split()[1])
                out.append(_expand(u, f.read(), depth + 1, mutate))
        elif d.startswith('struct '):
            t = d.split()
            cname = t[4] if len(t) > 4 and t[3] == 'as' else None
            subst = [tuple(x.split('=', 1)) for x in t[3:] if '=' in x]
            nth = int(t[t.index('nth') + 1]) if 'nth' in t else 0
            out.append(_lower_struct(cxx.find_struct(t[1], t[2], nth=nth), cname, None, subst))
        elif d.startswith('enum '):
            t = d.split()
            e = cxx.preprocess(cxx.find_enum(t[1], t[2], int(t[t.index('nth') + 1]) if 'nth' in t else 0))
            cname = t[4] if len(t) > 4 and t[3] == 'as' else t[2]
            if 'prefix' in t:
                pre_ = t[t.index('prefix') + 1]
                hd, tl = e.split('{', 1)
                e = hd + '{' + re.sub(r'(?<![\w=])([A-Za-z_]\w*)(?=\s*(?:=|,|\}))', lambda mm: pre_ + mm.group(1), tl)
            e = re.sub(r'^enum\s+\w+', 'enum %s_e' % cname, e.strip())
            out.append('typedef %s %s;\n' % (e, cname))
        elif d.startswith('init '):
            t = d.split()
            txt = cxx.preprocess(cxx.find_initializer(t[1], t[2], ' '.join(t[4:]) if len(t) > 4 and t[3] == 'after' else None))
            # optional rules until endinit
            if i < len(lines) and lines[i].strip().startswith('rule'):
                while lines[i].strip() != '//@ endinit':
                    r = lines[i].strip()
                    must = not r.startswith('rule?:')
                    pat, rep = _parse_rule(r.split(':', 1)[1])
                    txt, n = re.subn(pat, rep, txt, flags=re.S)
                    if n == 0 and must:
                        raise cxx.ExtractError('must-fire rule did not fire in init %s: %s' % (t[2], pat))
                    i += 1
                i += 1
            out.append(txt)
        elif d.startswith('func ') or d.startswith('func? '):
            optional = d.startswith('func? ')     # helper that may not exist in this tree: skipped when absent
            if optional:
                d = 'func ' + d[6:]
            acc = []
            while lines[i].strip() != '//@ endfunc':
                acc.append(lines[i])
                i += 1
                if i >= len(lines):
                    raise cxx.ExtractError('missing //@ endfunc')
            i += 1
            try:
                out.append(_process_func(u, d[5:], acc, mutate))
            except cxx.ExtractError as ex:
                if not (optional and 'not found' in str(ex)):
                    raise
                out.append('/* optional function absent in this tree: %s */' % d[5:])
        else:
            raise cxx.ExtractError('unknown directive: ' + d)
    return '\n'.join(out)


def build(path, mutate=None):
    u = Unit(path)
    with open(path) as f:
        text = f.read()
    u.c_text = '#include "tins_prelude.h"\n' + _expand(u, text, 0, mutate)
    if u.hdr.get('funcs-json') and os.path.exists(path + '.json'):
        import json
        with open(path + '.json') as f:
            u.gen_meta = json.load(f)
        u.funcs = [dict(function=x['function'], file=x['file']) for x in u.gen_meta.get('functions', [])] + u.funcs
    if 'unit' not in u.hdr:
        u.hdr['unit'] = os.path.splitext(os.path.basename(path))[0]
    if u.get('pipeline', 'dfcc') == 'plain':
        # plain pipeline: file-scope objects start at ZERO (no --nondet-static). A ghost that is never assigned anywhere would
        # silently be the constant 0 and make the obligations that mention it vacuous: refuse to run such a unit.
        body = re.sub(r'/\*.*?\*/', '', u.c_text, flags=re.S)
        for m in re.finditer(r'^(?:static\s+)?(?:const\s+)?[A-Za-z_][\w \*]*?\b(G_\w+)\s*(?:\[[^\]]*\])?\s*(?:,|;)', body, re.M):
            decl_line = body[m.start():body.find(';', m.start()) + 1]
            if '(' in decl_line or 'const' in decl_line.split('G_')[0]:
                continue
            for g in re.findall(r'\bG_\w+', decl_line):
                uses = [x for x in re.finditer(r'(?<![\w.>])%s\b' % re.escape(g), body)]
                assigned = any(re.match(r'\s*(\[[^\]]*\])*\s*(=[^=]|\+\+|--|\+=|-=|\.|->)', body[x.end():x.end() + 40]) or re.search(r'((?<!&)&|\+\+|--)\s*$', body[max(0, x.start() - 4):x.start()]) for x in uses if not (m.start() <= x.start() < m.start() + len(decl_line)))
                if not assigned:
                    raise cxx.ExtractError('plain-pipeline unit declares ghost %s but never assigns it (it would be the constant 0)' % g)
    return u
